(* Proofs/GeometryFacts.v — C17 (second half): rectangle IoU, Menger curvature, rank, distances,
   distance_to_similarity, triangle_area, _ccw.  Tier A on RNum; rank is Tier S (any arithmetic). *)
From Coq Require Import Reals List ZArith Lra Lia Psatz Bool Arith Permutation.
From Knee Require Import Num NumR NpList Model.Geometry Proofs.MetricsFacts.
Import ListNotations.
Local Open Scope R_scope.

Ltac rn := change (T RNum) with R in *.
Lemma pymax_R (a b : R) : @pymax RNum a b = Rmax a b.
Proof. unfold pymax. simpl. unfold Rltb, Rmax. destruct (Rlt_dec a b), (Rle_dec a b); try reflexivity; lra. Qed.
Lemma pymin_R (a b : R) : @pymin RNum a b = Rmin a b.
Proof. unfold pymin. simpl. unfold Rltb, Rmin. destruct (Rlt_dec b a), (Rle_dec a b); try reflexivity; lra. Qed.

(* ---------- rectangles ---------- *)
Definition wf_rect (lo hi : R * R) : Prop := fst lo <= fst hi /\ snd lo <= snd hi.
Definition area (lo hi : R * R) : R := (fst hi - fst lo) * (snd hi - snd lo).
(* side lengths of the intersection rectangle (0 when empty) *)
Definition ix (amin amax bmin bmax : R * R) : R := Rmax 0 (Rmin (fst amax) (fst bmax) - Rmax (fst amin) (fst bmin)).
Definition iy (amin amax bmin bmax : R * R) : R := Rmax 0 (Rmin (snd amax) (snd bmax) - Rmax (snd amin) (snd bmin)).

Theorem rect_spec (p1 p2 : R * R) :
  @rect RNum p1 p2 = ((Rmin (fst p1) (fst p2), Rmin (snd p1) (snd p2)), (Rmax (fst p1) (fst p2), Rmax (snd p1) (snd p2)))
  /\ wf_rect (fst (@rect RNum p1 p2)) (snd (@rect RNum p1 p2)).
Proof.
  unfold rect. rewrite !pymin_R, !pymax_R. split; [reflexivity|]. unfold wf_rect. simpl.
  split; (eapply Rle_trans; [apply Rmin_l|apply Rmax_l]).
Qed.

(* rect_overlap is intersection area / union area (0 when the intersection has no area) *)
Theorem rect_overlap_def (amin amax bmin bmax : R * R) :
  wf_rect amin amax -> wf_rect bmin bmax ->
  let ov := ix amin amax bmin bmax * iy amin amax bmin bmax in
  @rect_overlap RNum amin amax bmin bmax
  = if Rlt_dec 0 ov then ov / (area amin amax + area bmin bmax - ov) else 0.
Proof.
  intros [Ha0 Ha1] [Hb0 Hb1] ov. unfold rect_overlap. rewrite !pymax_R, !pymin_R. simpl.
  fold (ix amin amax bmin bmax) (iy amin amax bmin bmax). fold ov. unfold Rltb.
  destruct (Rlt_dec 0 ov); [|reflexivity].
  unfold area. rewrite !Rabs_pos_eq by lra. reflexivity.
Qed.

Theorem iou_sym (amin amax bmin bmax : R * R) :
  @rect_overlap RNum amin amax bmin bmax = @rect_overlap RNum bmin bmax amin amax.
Proof.
  unfold rect_overlap. rewrite !pymax_R, !pymin_R. simpl.
  rewrite (Rmin_comm (fst bmax)), (Rmax_comm (fst bmin)), (Rmin_comm (snd bmax)), (Rmax_comm (snd bmin)).
  destruct (Rltb 0 _); [|reflexivity]. f_equal. ring.
Qed.

Lemma ix_bounds amin amax bmin bmax : wf_rect amin amax -> wf_rect bmin bmax ->
  0 <= ix amin amax bmin bmax /\ ix amin amax bmin bmax <= fst amax - fst amin /\ ix amin amax bmin bmax <= fst bmax - fst bmin.
Proof.
  intros [Ha _] [Hb _]. unfold ix.
  pose proof (Rmin_l (fst amax) (fst bmax)). pose proof (Rmin_r (fst amax) (fst bmax)).
  pose proof (Rmax_l (fst amin) (fst bmin)). pose proof (Rmax_r (fst amin) (fst bmin)).
  split; [apply Rmax_l|]. split; apply Rmax_lub; lra.
Qed.
Lemma iy_bounds amin amax bmin bmax : wf_rect amin amax -> wf_rect bmin bmax ->
  0 <= iy amin amax bmin bmax /\ iy amin amax bmin bmax <= snd amax - snd amin /\ iy amin amax bmin bmax <= snd bmax - snd bmin.
Proof.
  intros [_ Ha] [_ Hb]. unfold iy.
  pose proof (Rmin_l (snd amax) (snd bmax)). pose proof (Rmin_r (snd amax) (snd bmax)).
  pose proof (Rmax_l (snd amin) (snd bmin)). pose proof (Rmax_r (snd amin) (snd bmin)).
  split; [apply Rmax_l|]. split; apply Rmax_lub; lra.
Qed.

Theorem iou_range (amin amax bmin bmax : R * R) :
  wf_rect amin amax -> wf_rect bmin bmax -> 0 <= @rect_overlap RNum amin amax bmin bmax <= 1.
Proof.
  intros Ha Hb. rewrite rect_overlap_def by assumption. cbv zeta.
  destruct (ix_bounds _ _ _ _ Ha Hb) as (Hx0 & Hxa & Hxb). destruct (iy_bounds _ _ _ _ Ha Hb) as (Hy0 & Hya & Hyb).
  set (dx := ix amin amax bmin bmax) in *. set (dy := iy amin amax bmin bmax) in *.
  destruct (Rlt_dec 0 (dx * dy)) as [Hov|Hov]; [|lra].
  unfold area. destruct Ha as [Ha0 Ha1], Hb as [Hb0 Hb1].
  assert (H1 : dx * dy <= (fst amax - fst amin) * (snd amax - snd amin)) by (apply Rmult_le_compat; lra).
  assert (H2 : dx * dy <= (fst bmax - fst bmin) * (snd bmax - snd bmin)) by (apply Rmult_le_compat; lra).
  assert (Ht : 0 < (fst amax - fst amin) * (snd amax - snd amin) + (fst bmax - fst bmin) * (snd bmax - snd bmin) - dx * dy) by lra.
  split.
  - apply Rdiv_nonneg; lra.
  - apply Rdiv_le_l; [exact Ht|]. lra.
Qed.

Theorem iou_identical (lo hi : R * R) :
  fst lo < fst hi -> snd lo < snd hi -> @rect_overlap RNum lo hi lo hi = 1.
Proof.
  intros H0 H1. rewrite rect_overlap_def by (split; lra). cbv zeta. unfold ix, iy, area.
  rewrite !Rmin_left, !(Rmax_left (fst lo)), !(Rmax_left (snd lo)), !Rmax_right by lra.
  assert (Hp : 0 < (fst hi - fst lo) * (snd hi - snd lo)) by (apply Rmult_lt_0_compat; lra).
  destruct (Rlt_dec 0 _) as [H|H]; [|contradiction]. change (T RNum) with R. field. lra.
Qed.

Theorem iou_disjoint (amin amax bmin bmax : R * R) :
  fst amax <= fst bmin \/ fst bmax <= fst amin \/ snd amax <= snd bmin \/ snd bmax <= snd amin ->
  @rect_overlap RNum amin amax bmin bmax = 0.
Proof.
  intros H. unfold rect_overlap. rewrite !pymax_R, !pymin_R. simpl.
  pose proof (Rmin_l (fst amax) (fst bmax)). pose proof (Rmin_r (fst amax) (fst bmax)).
  pose proof (Rmax_l (fst amin) (fst bmin)). pose proof (Rmax_r (fst amin) (fst bmin)).
  pose proof (Rmin_l (snd amax) (snd bmax)). pose proof (Rmin_r (snd amax) (snd bmax)).
  pose proof (Rmax_l (snd amin) (snd bmin)). pose proof (Rmax_r (snd amin) (snd bmin)).
  assert (Hz : Rmax 0 (Rmin (fst amax) (fst bmax) - Rmax (fst amin) (fst bmin)) * Rmax 0 (Rmin (snd amax) (snd bmax) - Rmax (snd amin) (snd bmin)) = 0).
  { destruct H as [H|[H|[H|H]]].
    1,2: rewrite (Rmax_left 0 (Rmin (fst amax) (fst bmax) - _)) by lra; ring.
    all: rewrite (Rmax_left 0 (Rmin (snd amax) (snd bmax) - _)) by lra; ring. }
  rewrite Hz. unfold Rltb. destruct (Rlt_dec 0 0); [lra|reflexivity].
Qed.
(* zero-area rectangles never overlap anything *)
Corollary iou_degenerate (amin amax bmin bmax : R * R) :
  wf_rect amin amax -> wf_rect bmin bmax -> area amin amax = 0 -> @rect_overlap RNum amin amax bmin bmax = 0.
Proof.
  intros Ha Hb Hz. rewrite rect_overlap_def by assumption. cbv zeta.
  destruct (ix_bounds _ _ _ _ Ha Hb) as (Hx0 & Hxa & Hxb). destruct (iy_bounds _ _ _ _ Ha Hb) as (Hy0 & Hya & Hyb).
  destruct (Rlt_dec 0 _) as [H|H]; [|reflexivity]. exfalso. unfold area in Hz. destruct Ha.
  assert (ix amin amax bmin bmax * iy amin amax bmin bmax <= (fst amax - fst amin) * (snd amax - snd amin)) by (apply Rmult_le_compat; lra).
  lra.
Qed.

(* ---------- Menger curvature ---------- *)
Definition side2 (p q : R * R) : R := (fst q - fst p) * (fst q - fst p) + (snd q - snd p) * (snd q - snd p).
Definition side (p q : R * R) : R := sqrtR (side2 p q).
(* twice the signed area of the triangle f g h *)
Definition cross3 (f g h : R * R) : R := (fst g - fst f) * (snd h - snd g) - (snd g - snd f) * (fst h - fst g).
Definition tri_area (f g h : R * R) : R := Rabs (cross3 f g h) / 2.

Lemma side2_nonneg p q : 0 <= side2 p q.
Proof. unfold side2. apply Rplus_le_le_0_compat; apply sq_nonneg. Qed.
Lemma abs_sumsq (a b : R) : Rabs (a * a + b * b) = a * a + b * b.
Proof. apply Rabs_pos_eq. apply Rplus_le_le_0_compat; apply sq_nonneg. Qed.
Lemma menger_R (f g h : R * R) :
  @menger_curvature RNum f g h = 2 * Rabs (cross3 f g h) / sqrtR (side2 f g * side2 g h * side2 h f).
Proof.
  destruct f as [x1 y1], g as [x2 y2], h as [x3 y3]. unfold menger_curvature, cross3, side2. simpl.
  rewrite !abs_sumsq. reflexivity.
Qed.
(* = 4 Area / (a b c): the reciprocal of the circumradius a b c / (4 Area) *)
Theorem menger_is_inverse_circumradius (f g h : R * R) :
  @menger_curvature RNum f g h = 4 * tri_area f g h / (side f g * side g h * side h f).
Proof. rn.
  rewrite menger_R. unfold side, tri_area.
  rewrite !sqrt_mult by (try apply Rmult_le_pos; apply side2_nonneg).
  replace (4 * (Rabs (cross3 f g h) / 2)) with (2 * Rabs (cross3 f g h)) by field. reflexivity.
Qed.
Corollary menger_circumradius (f g h : R * R) :
  cross3 f g h <> 0 -> f <> g -> g <> h -> h <> f ->
  0 < @menger_curvature RNum f g h /\
  / @menger_curvature RNum f g h = side f g * side g h * side h f / (4 * tri_area f g h).
Proof. rn.
  intros Hc Hfg Hgh Hhf. rewrite menger_is_inverse_circumradius.
  assert (Hs : forall p q : R * R, p <> q -> 0 < side p q).
  { intros p q Hpq. apply sqrt_lt_R0. unfold side2. destruct p as [a b], q as [c d]. simpl.
    pose proof (sq_nonneg (c - a)). pose proof (sq_nonneg (d - b)).
    destruct (Req_EM_T a c) as [E1|E1]; [destruct (Req_EM_T b d) as [E2|E2]|].
    - exfalso. apply Hpq. subst. reflexivity.
    - assert (0 < (d - b) * (d - b)) by nra. lra.
    - assert (0 < (c - a) * (c - a)) by nra. lra. }
  pose proof (Hs _ _ Hfg). pose proof (Hs _ _ Hgh). pose proof (Hs _ _ Hhf).
  assert (Ha : 0 < tri_area f g h) by (unfold tri_area; pose proof (Rabs_pos_lt _ Hc); lra).
  assert (Hp : 0 < side f g * side g h * side h f) by (repeat apply Rmult_lt_0_compat; assumption).
  split.
  - apply Rdiv_lt_0_compat; lra.
  - field. split; lra.
Qed.
(* symmetric under every permutation of the three points (two generators) *)
Lemma side2_sym p q : side2 p q = side2 q p.
Proof. rn. unfold side2. ring. Qed.
Theorem menger_swap12 (f g h : R * R) : @menger_curvature RNum f g h = @menger_curvature RNum g f h.
Proof. rn.
  rewrite !menger_R. f_equal.
  - f_equal. rewrite <- (Rabs_Ropp (cross3 g f h)). f_equal. unfold cross3. ring.
  - f_equal. rewrite (side2_sym f g), (side2_sym g h), (side2_sym h f). ring.
Qed.
Theorem menger_swap23 (f g h : R * R) : @menger_curvature RNum f g h = @menger_curvature RNum f h g.
Proof. rn.
  rewrite !menger_R. f_equal.
  - f_equal. rewrite <- (Rabs_Ropp (cross3 f h g)). f_equal. unfold cross3. ring.
  - f_equal. rewrite (side2_sym f g), (side2_sym g h), (side2_sym h f). ring.
Qed.
Theorem menger_rotate (f g h : R * R) : @menger_curvature RNum f g h = @menger_curvature RNum g h f.
Proof. rn. rewrite (menger_swap12 f g h). apply menger_swap23. Qed.
(* 0 on collinear triples *)
Theorem menger_collinear (f g h : R * R) : cross3 f g h = 0 -> @menger_curvature RNum f g h = 0.
Proof. rn. intros H. rewrite menger_R, H, Rabs_R0. unfold Rdiv. ring. Qed.
Theorem menger_nonneg (f g h : R * R) : 0 <= @menger_curvature RNum f g h.
Proof. rn.
  rewrite menger_R. apply Rdiv_nonneg; [|apply sqrt_pos]. pose proof (Rabs_pos (cross3 f g h)). lra.
Qed.

(* ---------- triangle_area, _ccw ---------- *)
Theorem triangle_area_def (p0 p1 p2 : R * R) :
  @triangle_area RNum p0 p1 p2 = ((fst p1 - fst p0) * (snd p2 - snd p0) - (fst p2 - fst p0) * (snd p1 - snd p0)) / 2.
Proof. rn. unfold triangle_area, half, two. simpl. field. Qed.
Theorem ccw_is_twice_area (a b c : R * R) : @ccw RNum a b c = 2 * @triangle_area RNum a b c.
Proof. rn. rewrite triangle_area_def. unfold ccw. simpl. field. Qed.
Theorem triangle_area_cross3 (p0 p1 p2 : R * R) : @triangle_area RNum p0 p1 p2 = cross3 p0 p1 p2 / 2.
Proof. rn. rewrite triangle_area_def. unfold cross3. field. Qed.
Theorem triangle_area_abs (p0 p1 p2 : R * R) : Rabs (@triangle_area RNum p0 p1 p2) = tri_area p0 p1 p2.
Proof. rn. rewrite triangle_area_cross3. unfold tri_area, Rdiv. rewrite Rabs_mult, (Rabs_pos_eq (/ 2)) by lra. reflexivity. Qed.
Theorem triangle_area_antisym (p0 p1 p2 : R * R) : @triangle_area RNum p0 p2 p1 = - @triangle_area RNum p0 p1 p2.
Proof. rn. rewrite !triangle_area_def. field. Qed.
Theorem triangle_area_cyclic (p0 p1 p2 : R * R) : @triangle_area RNum p1 p2 p0 = @triangle_area RNum p0 p1 p2.
Proof. rn. rewrite !triangle_area_def. field. Qed.
Theorem ccw_antisym (a b c : R * R) : @ccw RNum a c b = - @ccw RNum a b c.
Proof. rn. unfold ccw. simpl. ring. Qed.
(* collinear <-> zero area: c - a is parallel to b - a *)
Theorem ccw_zero_on_line (a b : R * R) (lam : R) :
  @ccw RNum a b (fst a + lam * (fst b - fst a), snd a + lam * (snd b - snd a)) = 0.
Proof. rn. unfold ccw. simpl. ring. Qed.

(* ---------- distances ---------- *)
Theorem distances_def (q p : R * R) :
  let r := @dist_one RNum q p in 0 <= r /\ r * r = (fst p - fst q) * (fst p - fst q) + (snd p - snd q) * (snd p - snd q).
Proof. rn.
  unfold dist_one, sq. simpl. split; [apply sqrt_pos|]. apply sqrt_sqrt. apply Rplus_le_le_0_compat; apply sq_nonneg.
Qed.
Theorem distances_sym (q p : R * R) : @dist_one RNum q p = @dist_one RNum p q.
Proof. rn. unfold dist_one, sq. simpl. f_equal. ring. Qed.
Theorem distances_zero (q p : R * R) : @dist_one RNum q p = 0 <-> p = q.
Proof. rn.
  split.
  - intros H. destruct (distances_def q p) as [_ Hsq]. rewrite H in Hsq.
    destruct p as [a b], q as [c d]. simpl in Hsq. pose proof (sq_nonneg (a - c)). pose proof (sq_nonneg (b - d)).
    assert (a - c = 0) by nra. assert (b - d = 0) by nra. f_equal; lra.
  - intros ->. unfold dist_one, sq. simpl. replace (_ + _) with 0 by ring. apply sqrt_0.
Qed.
Theorem distances_map (q : R * R) (P : list (R * R)) :
  length (@distances RNum q P) = length P /\
  forall k, (k < length P)%nat -> nth k (@distances RNum q P) 0 = @dist_one RNum q (nth k P (0, 0)).
Proof. rn.
  unfold distances. split; [apply map_length|]. intros k Hk.
  rewrite (nth_indep _ 0 (@dist_one RNum q (0, 0))) by (rewrite map_length; exact Hk). apply map_nth.
Qed.

(* ---------- distance_to_similarity ---------- *)
Lemma fold_pymax_R (l : list R) : forall m, fold_left (@pymax RNum) l m = fold_left Rmax l m.
Proof. rn. induction l as [|x l IH]; intros m; [reflexivity|]. simpl. rewrite <- IH. f_equal. apply pymax_R. Qed.
Lemma fold_Rmax_ub (l : list R) : forall m, m <= fold_left Rmax l m /\ (forall x, In x l -> x <= fold_left Rmax l m)
                                            /\ (fold_left Rmax l m = m \/ In (fold_left Rmax l m) l).
Proof. rn.
  induction l as [|x l IH]; intros m; simpl.
  - split; [lra|]. split; [intros x []|left; reflexivity].
  - destruct (IH (Rmax m x)) as (H1 & H2 & H3). pose proof (Rmax_l m x). pose proof (Rmax_r m x).
    split; [lra|]. split.
    + intros y [<-|Hy]; [lra|apply H2; exact Hy].
    + destruct H3 as [H3|H3]; [|right; right; exact H3].
      rewrite H3. unfold Rmax. destruct (Rle_dec m x); [right; left; reflexivity|left; reflexivity].
Qed.
Theorem distance_to_similarity_def (l : list R) : l <> [] ->
  let m := @py_max_list RNum l in
  In m l /\ (forall x, In x l -> x <= m) /\
  @distance_to_similarity RNum l = map (fun x => m - x) l /\
  Forall (fun s => 0 <= s) (@distance_to_similarity RNum l).
Proof. rn.
  intros Hl m. destruct l as [|x0 l]; [contradiction|].
  assert (Hm : m = fold_left Rmax l x0) by (unfold m, py_max_list; apply fold_pymax_R).
  destruct (fold_Rmax_ub l x0) as (H1 & H2 & H3). rewrite <- Hm in *.
  assert (Hub : forall x, In x (x0 :: l) -> x <= m) by (intros x [<-|Hx]; [exact H1|apply H2; exact Hx]).
  split; [destruct H3 as [->|H3]; [left; reflexivity|right; exact H3]|].
  split; [exact Hub|]. split; [reflexivity|].
  unfold distance_to_similarity. fold m. apply Forall_forall. intros s Hs. apply in_map_iff in Hs.
  destruct Hs as [x [<- Hx]]. simpl. specialize (Hub x Hx). lra.
Qed.

(* ====================== rank (Tier S: any arithmetic, any sorting permutation) ====================== *)
Section Rank.
  Context {N : Num}.
  Local Open Scope nat_scope.

  Lemma index_of_nth (l : list nat) : NoDup l -> forall k, k < length l -> index_of (nth k l 0) l = k.
  Proof.
    induction 1 as [|a l Ha Hnd IH]; intros k Hk; [simpl in Hk; lia|].
    destruct k as [|k]; simpl; [rewrite Nat.eqb_refl; reflexivity|].
    simpl in Hk. destruct (Nat.eqb_spec (nth k l 0) a) as [E|E].
    - exfalso. apply Ha. rewrite <- E. apply nth_In. lia.
    - f_equal. apply IH. lia.
  Qed.
  Lemma nth_index_of (l : list nat) i : In i l -> index_of i l < length l /\ nth (index_of i l) l 0 = i.
  Proof.
    induction l as [|a l IH]; intros Hi; [contradiction|]. simpl.
    destruct (Nat.eqb_spec i a) as [E|E]; [split; [lia|symmetry; exact E]|].
    destruct Hi as [Hi|Hi]; [congruence|]. destruct (IH Hi). split; [lia|assumption].
  Qed.
  Lemma rank_nth (temp : list nat) j : j < length temp -> nth j (rank_of_perm temp) 0 = index_of j temp.
  Proof.
    intros Hj. unfold rank_of_perm.
    rewrite (nth_indep _ 0 (index_of 0 temp)) by (rewrite map_length, seq_length; exact Hj).
    rewrite (map_nth (fun i => index_of i temp)), seq_nth by exact Hj. reflexivity.
  Qed.
  Lemma NoDup_map_inj_on {A B} (f : A -> B) (l : list A) :
    NoDup l -> (forall x y, In x l -> In y l -> f x = f y -> x = y) -> NoDup (map f l).
  Proof.
    induction 1 as [|a l Ha Hnd IH]; intros Hinj; simpl; constructor.
    - intros Hin. apply in_map_iff in Hin. destruct Hin as [x [Hx Hxl]].
      apply Ha. rewrite <- (Hinj x a); [exact Hxl|right; exact Hxl|left; reflexivity|exact Hx].
    - apply IH. intros x y Hx Hy. apply Hinj; right; assumption.
  Qed.

  (* `temp` is what array.argsort() may return: a permutation of the positions that puts the values in order *)
  Definition sorts (a : list (T N)) (temp : list nat) : Prop :=
    Permutation temp (seq 0 (length a)) /\
    forall i j, i < j -> j < length a -> leb (nth (nth i temp 0) a zero) (nth (nth j temp 0) a zero) = true.

  Lemma sorts_facts a temp : sorts a temp ->
    length temp = length a /\ NoDup temp /\ (forall i, In i temp <-> i < length a).
  Proof.
    intros [Hp _]. split; [rewrite (Permutation_length Hp); apply seq_length|]. split.
    - apply (Permutation_NoDup (Permutation_sym Hp)). apply seq_NoDup.
    - intros i. split; intros H.
      + apply (Permutation_in _ Hp) in H. apply in_seq in H. lia.
      + apply (Permutation_in _ (Permutation_sym Hp)). apply in_seq. lia.
  Qed.

  (* C17 rank_perm: ranks is the inverse of the sorting permutation, hence a permutation of 0..n-1 that orders the values *)
  Theorem rank_perm (a : list (T N)) (temp : list nat) : sorts a temp ->
    let r := rank_of_perm temp in
    length r = length a /\
    (forall k, k < length a -> nth (nth k temp 0) r 0 = k) /\
    Permutation r (seq 0 (length a)) /\
    (forall i j, i < length a -> j < length a -> nth i r 0 < nth j r 0 -> leb (nth i a zero) (nth j a zero) = true).
  Proof.
    intros Hs r. destruct (sorts_facts a temp Hs) as (Hlen & Hnd & Hin). destruct Hs as [Hp Hord].
    assert (Hr : length r = length a) by (unfold r, rank_of_perm; rewrite map_length, seq_length; exact Hlen).
    split; [exact Hr|]. split; [|split].
    - intros k Hk. unfold r. rewrite rank_nth.
      + apply index_of_nth; [exact Hnd|lia].
      + rewrite Hlen. apply Hin. apply nth_In. lia.
    - apply NoDup_Permutation_bis.
      + unfold r, rank_of_perm. apply NoDup_map_inj_on; [apply seq_NoDup|].
        intros x y Hx Hy E. apply in_seq in Hx. apply in_seq in Hy.
        destruct (nth_index_of temp x) as [_ Ex]; [apply Hin; lia|].
        destruct (nth_index_of temp y) as [_ Ey]; [apply Hin; lia|]. congruence.
      + rewrite seq_length, Hr. lia.
      + intros v Hv. unfold r, rank_of_perm in Hv. apply in_map_iff in Hv. destruct Hv as [i [<- Hi]].
        apply in_seq in Hi. apply in_seq. destruct (nth_index_of temp i) as [Hlt _]; [apply Hin; lia|]. lia.
    - intros i j Hi Hj Hlt. unfold r in Hlt. rewrite !rank_nth in Hlt by lia.
      destruct (nth_index_of temp i) as [Hi1 Hi2]; [apply Hin; exact Hi|].
      destruct (nth_index_of temp j) as [Hj1 Hj2]; [apply Hin; exact Hj|].
      specialize (Hord (index_of i temp) (index_of j temp) Hlt ltac:(lia)).
      rewrite Hi2, Hj2 in Hord. exact Hord.
  Qed.

  (* the boolean predicate the implementation's output is judged with: Model/Geometry.v rank_okb *)
  Theorem rank_okb_holds (a : list (T N)) (temp : list nat) : sorts a temp -> rank_okb a (rank_of_perm temp) = true.
  Proof.
    intros Hs. destruct (rank_perm a temp Hs) as (Hlen & _ & Hp & Hord). unfold rank_okb, is_perm_b, orders_b.
    rewrite !andb_true_iff. split; [split|].
    - apply Nat.eqb_eq. exact Hlen.
    - apply forallb_forall. intros k Hk. apply existsb_exists. exists k. split; [|apply Nat.eqb_refl].
      apply (Permutation_in _ (Permutation_sym Hp)). exact Hk.
    - apply forallb_forall. intros i Hi. apply forallb_forall. intros j Hj.
      apply in_seq in Hi. apply in_seq in Hj.
      destruct (nth i (rank_of_perm temp) 0 <? nth j (rank_of_perm temp) 0) eqn:E; [|reflexivity].
      apply Nat.ltb_lt in E. simpl. apply Hord; lia.
  Qed.
  (* conversely the predicate pins the output down as a permutation of 0..n-1 ordering the values *)
  Theorem rank_okb_sound (a : list (T N)) (r : list nat) : rank_okb a r = true ->
    Permutation r (seq 0 (length a)) /\
    (forall i j, i < length a -> j < length a -> nth i r 0 < nth j r 0 -> leb (nth i a zero) (nth j a zero) = true).
  Proof.
    unfold rank_okb, is_perm_b, orders_b. rewrite !andb_true_iff. intros [[Hl Hex] Ho]. apply Nat.eqb_eq in Hl. split.
    - apply Permutation_sym. apply NoDup_Permutation_bis; [apply seq_NoDup|rewrite seq_length; lia|].
      intros k Hk. rewrite forallb_forall in Hex. specialize (Hex k Hk). apply existsb_exists in Hex.
      destruct Hex as [x [Hx E]]. apply Nat.eqb_eq in E. subst. exact Hx.
    - intros i j Hi Hj Hlt. rewrite forallb_forall in Ho. specialize (Ho i ltac:(apply in_seq; lia)).
      rewrite forallb_forall in Ho. specialize (Ho j ltac:(apply in_seq; lia)).
      apply Nat.ltb_lt in Hlt. rewrite Hlt in Ho. exact Ho.
  Qed.
  (* a decidable form of `sorts` (for closed examples) *)
  Definition sortsb (a : list (T N)) (temp : list nat) : bool :=
    is_perm_b (length a) temp &&
    forallb (fun j => forallb (fun i => implb (i <? j) (leb (nth (nth i temp 0) a zero) (nth (nth j temp 0) a zero)))
                              (seq 0 (length a))) (seq 0 (length a)).
  Lemma sortsb_sound (a : list (T N)) (temp : list nat) : sortsb a temp = true -> sorts a temp.
  Proof.
    unfold sortsb, is_perm_b. rewrite !andb_true_iff. intros [[Hl Hex] Ho]. apply Nat.eqb_eq in Hl. split.
    - apply Permutation_sym. apply NoDup_Permutation_bis; [apply seq_NoDup|rewrite seq_length; lia|].
      intros k Hk. rewrite forallb_forall in Hex. specialize (Hex k Hk). apply existsb_exists in Hex.
      destruct Hex as [x [Hx E]]. apply Nat.eqb_eq in E. subst. exact Hx.
    - intros i j Hij Hj. rewrite forallb_forall in Ho. specialize (Ho j ltac:(apply in_seq; lia)).
      rewrite forallb_forall in Ho. specialize (Ho i ltac:(apply in_seq; lia)).
      apply Nat.ltb_lt in Hij. rewrite Hij in Ho. exact Ho.
  Qed.
End Rank.

(* ====================== rank (Tier O): the executable model's stable sort IS a sorting permutation ====================== *)
From Knee Require Import OrdLaws.
From Coq Require Import Sorting.Sorted.
Section RankStable.
  Context {N : Num}.
  Variable P : T N -> Prop.
  Hypothesis HP : TotalPreorderOn P.
  Local Open Scope nat_scope.

  Definition kle (p q : nat * T N) : bool := leb (snd p) (snd q).
  Definition kR (p q : nat * T N) : Prop := kle p q = true.
  Definition kP (p : nat * T N) : Prop := P (snd p).

  Lemma insert_by_perm {A} (le : A -> A -> bool) (x : A) (l : list A) : Permutation (insert_by le x l) (x :: l).
  Proof.
    induction l as [|y l IH]; simpl; [apply Permutation_refl|].
    destruct (le y x); [|apply Permutation_refl].
    apply perm_trans with (y :: x :: l); [apply perm_skip; exact IH|apply perm_swap].
  Qed.
  Lemma fold_insert_perm {A} (le : A -> A -> bool) (l : list A) : forall acc,
    Permutation (fold_left (fun acc x => insert_by le x acc) l acc) (acc ++ l).
  Proof.
    induction l as [|x l IH]; intros acc; simpl; [rewrite app_nil_r; apply Permutation_refl|].
    eapply perm_trans; [apply IH|]. apply perm_trans with ((x :: acc) ++ l).
    - apply Permutation_app_tail. apply insert_by_perm.
    - simpl. apply Permutation_middle.
  Qed.
  Lemma sort_by_perm {A} (le : A -> A -> bool) (l : list A) : Permutation (sort_by le l) l.
  Proof. unfold sort_by. apply (fold_insert_perm le l []). Qed.

  Lemma insert_sorted (x : nat * T N) (l : list (nat * T N)) :
    kP x -> Forall kP l -> StronglySorted kR l -> StronglySorted kR (insert_by kle x l).
  Proof.
    intros Hx Hl Hs. induction Hs as [|y l Hs IH Hy]; simpl; [repeat constructor|].
    inversion Hl as [|? ? Py Pl]; subst.
    destruct (kle y x) eqn:E.
    - constructor; [apply IH; exact Pl|].
      apply (Permutation_Forall (Permutation_sym (insert_by_perm kle x l))). constructor; [exact E|exact Hy].
    - assert (Hxy : kR x y).
      { destruct (ord_total _ HP (snd x) (snd y) Hx Py) as [H|H]; [exact H|]. unfold kle in E. congruence. }
      constructor; [constructor; assumption|]. constructor; [exact Hxy|].
      rewrite Forall_forall in *. intros z Hz. unfold kR, kle in *.
      apply (ord_trans _ HP (snd x) (snd y) (snd z)); auto. apply Pl. exact Hz.
  Qed.
  Lemma fold_insert_sorted (l : list (nat * T N)) : forall acc,
    Forall kP l -> Forall kP acc -> StronglySorted kR acc ->
    StronglySorted kR (fold_left (fun acc x => insert_by kle x acc) l acc).
  Proof.
    induction l as [|x l IH]; intros acc Hl Ha Hs; simpl; [exact Hs|].
    inversion Hl as [|? ? Px Pl]; subst. apply IH; [exact Pl| |apply insert_sorted; assumption].
    apply (Permutation_Forall (Permutation_sym (insert_by_perm kle x acc))). constructor; assumption.
  Qed.
  Lemma StronglySorted_nth {A} (R : A -> A -> Prop) (l : list A) d : StronglySorted R l ->
    forall i j, i < j -> j < length l -> R (nth i l d) (nth j l d).
  Proof.
    induction 1 as [|a l Hs IH Ha]; intros i j Hij Hj; [simpl in Hj; lia|].
    destruct j as [|j]; [lia|]. simpl in Hj. destruct i as [|i]; simpl.
    - rewrite Forall_forall in Ha. apply Ha. apply nth_In. lia.
    - apply IH; lia.
  Qed.
  Lemma combine_seq_nth (a : list (T N)) : forall s k v,
    In (k, v) (combine (seq s (length a)) a) -> s <= k /\ k < s + length a /\ nth (k - s) a zero = v.
  Proof.
    induction a as [|x a IH]; intros s k v Hin; [contradiction|]. simpl in Hin. destruct Hin as [E|Hin].
    - inversion E; subst. replace (k - k) with 0 by lia. simpl. repeat split; lia.
    - destruct (IH (S s) k v Hin) as (H1 & H2 & H3). simpl. repeat split; try lia.
      replace (k - s) with (S (k - S s)) by lia. exact H3.
  Qed.
  Lemma map_fst_combine {A B} (l1 : list A) : forall (l2 : list B), length l1 = length l2 -> map fst (combine l1 l2) = l1.
  Proof. induction l1 as [|x l1 IH]; intros [|y l2] H; try reflexivity; try discriminate. simpl. f_equal. apply IH. simpl in H. lia. Qed.

  (* the stable argsort of the executable model is one of the permutations the theorems quantify over *)
  Theorem argsort_stable_sorts (a : list (T N)) : Forall P a -> sorts a (argsort_stable a).
  Proof.
    intros Ha. unfold argsort_stable.
    set (L := combine (seq 0 (length a)) a). set (S := sort_by (fun p q : nat * T N => leb (snd p) (snd q)) L).
    assert (HpS : Permutation S L) by apply sort_by_perm.
    assert (HLP : Forall kP L).
    { apply Forall_forall. intros [k v] Hin. destruct (combine_seq_nth a 0 k v Hin) as (_ & Hk & Hv).
      unfold kP. simpl. rewrite <- Hv. rewrite Forall_forall in Ha. apply Ha. apply nth_In. lia. }
    assert (Hsorted : StronglySorted kR S) by (apply (fold_insert_sorted L []); [exact HLP|constructor|constructor]).
    assert (HlenS : length S = length a).
    { rewrite (Permutation_length HpS). unfold L. rewrite combine_length, seq_length. apply Nat.min_id. }
    split.
    - apply perm_trans with (map fst L); [apply Permutation_map; exact HpS|].
      unfold L. rewrite map_fst_combine by (rewrite seq_length; reflexivity). apply Permutation_refl.
    - intros i j Hij Hj.
      assert (Hkey : forall k, k < length a -> nth (nth k (map fst S) 0) a zero = snd (nth k S (0, zero))).
      { intros k Hk. change 0 with (fst (0, @zero N)) at 1. rewrite map_nth.
        assert (Hin : In (nth k S (0, zero)) L) by (apply (Permutation_in _ HpS); apply nth_In; lia).
        destruct (nth k S (0, zero)) as [kk v] eqn:E. simpl.
        destruct (combine_seq_nth a 0 kk v Hin) as (_ & _ & Hv). rewrite Nat.sub_0_r in Hv. exact Hv. }
      rewrite !Hkey by lia.
      apply (StronglySorted_nth kR S (0, zero) Hsorted i j Hij). lia.
  Qed.
  (* hence the model's rank satisfies the predicate the implementation is judged with *)
  Corollary rank_model_ok (a : list (T N)) : Forall P a -> rank_okb a (rank a) = true.
  Proof. intros Ha. unfold rank. apply rank_okb_holds. apply argsort_stable_sorts. exact Ha. Qed.
End RankStable.
