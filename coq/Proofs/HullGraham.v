(* Proofs/HullGraham.v — C18, Tier A, graham_scan in general position (PARTIAL, see the end of the file):
   the pivot is the lexicographically smallest point, the comparator sort arranges the other points strictly
   clockwise around it, the result is a subsequence of that arrangement starting at the pivot, and EVERY consecutive
   triple of the result (including the first, which the loop never tests) turns strictly clockwise. *)
From Coq Require Import Reals Lra Psatz List Arith Bool Lia Permutation Sorted.
From Knee Require Import Num NumR NpList Model.Hull Proofs.ListFacts Proofs.HullScan Proofs.HullFacts.
Import ListNotations.

Lemma NoDup_app_r {A} (l1 l2 : list A) : NoDup (l1 ++ l2) -> NoDup l2.
Proof. induction l1 as [|a l1 IH]; intros H; [exact H|]. apply IH. cbn [app] in H. inversion H; assumption. Qed.

(* ---- stable insertion sort with a comparator that is a strict total order on the sorted elements *)
Section InsSort.
  Variable lt : nat -> nat -> bool.
  Variable S : nat -> Prop.
  Hypothesis lt_total : forall x y, S x -> S y -> x <> y -> lt x y = true \/ lt y x = true.
  Hypothesis lt_trans : forall x y z, S x -> S y -> S z -> x <> y -> y <> z -> x <> z ->
    lt x y = true -> lt y z = true -> lt x z = true.
  Let le (y x : nat) : bool := negb (lt x y).
  Let ltP (x y : nat) : Prop := lt x y = true.

  Lemma insert_by_sorted x l : S x -> Forall S l -> ~ In x l -> NoDup l ->
    StronglySorted ltP l -> StronglySorted ltP (insert_by le x l).
  Proof.
    intros Sx. induction l as [|y l IH]; intros HF Hn Hnd HS; cbn [insert_by].
    - constructor; [constructor|constructor].
    - inversion HF as [|? ? Sy HF']; subst. inversion HS as [|? ? HS' Hy]; subst.
      inversion Hnd as [|? ? Hyn Hnd']; subst.
      assert (Hxy : x <> y) by (intros ->; apply Hn; left; reflexivity).
      unfold le at 1. destruct (lt x y) eqn:E; cbn [negb].
      + constructor; [exact HS|]. constructor; [exact E|].
        rewrite Forall_forall in *. intros z Hz. unfold ltP.
        apply (lt_trans x y z); auto.
        * intros ->. contradiction.
        * intros ->. apply Hn. right. exact Hz.
        * apply Hy. exact Hz.
      + constructor.
        * apply IH; auto. intros Hin. apply Hn. right. exact Hin.
        * rewrite Forall_forall. intros z Hz.
          apply (Permutation_in _ (Permutation_sym (insert_by_perm le x l))) in Hz. destruct Hz as [<-|Hz].
          -- destruct (lt_total x y Sx Sy Hxy) as [H|H]; [congruence|exact H].
          -- rewrite Forall_forall in Hy. apply Hy. exact Hz.
  Qed.
  Lemma sort_by_sorted_aux l : forall acc, Forall S l -> Forall S acc -> NoDup (l ++ acc) ->
    StronglySorted ltP acc -> StronglySorted ltP (fold_left (fun a x => insert_by le x a) l acc).
  Proof.
    induction l as [|x l IH]; intros acc HFl HFa Hnd HS; cbn [fold_left]; [exact HS|].
    inversion HFl as [|? ? Sx HFl']; subst.
    cbn [app] in Hnd. inversion Hnd as [|? ? Hxn Hnd']; subst.
    assert (Hnda : NoDup acc) by (apply NoDup_app_r in Hnd'; exact Hnd').
    apply IH; auto.
    - rewrite Forall_forall in *. intros z Hz.
      apply (Permutation_in _ (Permutation_sym (insert_by_perm le x acc))) in Hz. destruct Hz as [<-|Hz]; auto.
    - eapply Permutation_NoDup; [|exact Hnd].
      change (x :: l ++ acc) with ((x :: l) ++ acc).
      transitivity (l ++ x :: acc); [apply Permutation_middle|].
      apply Permutation_app_head. apply insert_by_perm.
    - apply insert_by_sorted; auto. intros Hin. apply Hxn. apply in_or_app. right. exact Hin.
  Qed.
  Lemma sort_by_sorted l : Forall S l -> NoDup l -> StronglySorted ltP (sort_by le l).
  Proof.
    intros HF Hnd. unfold sort_by. apply sort_by_sorted_aux; auto.
    - rewrite app_nil_r. exact Hnd.
    - constructor.
  Qed.
End InsSort.

Local Open Scope R_scope.

(* clockwise order around a point is transitive inside the closed right half-plane of the pivot *)
Definition halfplane (ux uy : R) : Prop := 0 < ux \/ (ux = 0 /\ 0 < uy).
Lemma ang_trans ux uy vx vy wx wy :
  halfplane ux uy -> halfplane vx vy -> halfplane wx wy ->
  ux * vy - uy * vx < 0 -> vx * wy - vy * wx < 0 -> ux * wy - uy * wx < 0.
Proof.
  intros Hu Hv Hw Huv Hvw.
  assert (E : (wx * uy - wy * ux) * vx = - (ux * vy - uy * vx) * wx + - (vx * wy - vy * wx) * ux) by ring.
  destruct Hv as [Hv|[Hv0 Hv1]].
  - assert (Hwx : 0 <= wx) by (destruct Hw as [?|[? ?]]; lra).
    assert (Hux : 0 <= ux) by (destruct Hu as [?|[? ?]]; lra).
    assert (H1 : 0 <= - (ux * vy - uy * vx) * wx) by (apply Rmult_le_pos; lra).
    assert (H2 : 0 <= - (vx * wy - vy * wx) * ux) by (apply Rmult_le_pos; lra).
    destruct Hu as [Hu|[Hu0 Hu1]].
    + assert (0 < - (vx * wy - vy * wx) * ux) by (apply Rmult_lt_0_compat; lra).
      assert (0 < (wx * uy - wy * ux) * vx) by lra.
      assert (0 < wx * uy - wy * ux); [|lra].
      destruct (Rlt_or_le 0 (wx * uy - wy * ux)) as [|Hle]; [assumption|].
      assert ((wx * uy - wy * ux) * vx <= 0) by (replace 0 with (0 * vx) by ring; apply Rmult_le_compat_r; lra). lra.
    + destruct Hw as [Hw|[Hw0 Hw1]].
      * assert (0 < - (ux * vy - uy * vx) * wx) by (apply Rmult_lt_0_compat; lra).
        assert (0 < (wx * uy - wy * ux) * vx) by lra.
        assert (0 < wx * uy - wy * ux); [|lra].
        destruct (Rlt_or_le 0 (wx * uy - wy * ux)) as [|Hle]; [assumption|].
        assert ((wx * uy - wy * ux) * vx <= 0) by (replace 0 with (0 * vx) by ring; apply Rmult_le_compat_r; lra). lra.
      * subst wx. exfalso.
        assert (0 < vx * wy) by (apply Rmult_lt_0_compat; lra). lra.
  - subst vx. exfalso.
    assert (Hux : 0 <= ux) by (destruct Hu as [?|[? ?]]; lra).
    assert (0 <= ux * vy) by (apply Rmult_le_pos; lra). lra.
Qed.

Lemma list_head_dec {A} (l : list A) : l = [] \/ exists a t, l = a :: t.
Proof. destruct l as [|a t]; [left; reflexivity|right; eauto]. Qed.
Lemma pivot_min_unfold (l : list (R * R)) p rest : l = p :: rest -> @pivot_min RNum l = @pivot_go RNum rest 1 p 0.
Proof. intros ->. reflexivity. Qed.

Section GP.
  Variable pts : list (R * R).
  Variable dist : nat -> R.
  Let n := length pts.
  Let P (i : nat) : R * R := nth i pts (0, 0).
  Let cc : nat -> nat -> nat -> R := @ccw_idx RNum pts.

  (* hypotheses of the general-position clause, as Props *)
  Hypothesis Hdist : forall i j, (i < n)%nat -> (j < n)%nat -> i <> j -> P i <> P j.
  Hypothesis Hgp : forall i j k, (i < n)%nat -> (j < n)%nat -> (k < n)%nat -> i <> j -> j <> k -> i <> k -> cc i j k <> 0.
  Hypothesis Hn : (3 <= n)%nat.

  (* ---- the pivot: the lexicographically smallest point *)
  Definition lexlt (p q : R * R) : Prop := fst p < fst q \/ (fst p = fst q /\ snd p < snd q).
  Lemma lex_lt_iff (p q : R * R) : @lex_lt RNum p q = true <-> lexlt p q.
  Proof.
    destruct p as [px py], q as [qx qy]. unfold lex_lt, lexlt. cbn [eqb ltb RNum fst snd].
    destruct (Reqb px qx) eqn:H1; cbn [negb].
    - apply Reqb_true in H1. destruct (Reqb py qy) eqn:H2; cbn [negb].
      + apply Reqb_true in H2. split; [intros H; discriminate|intros [H|[_ H]]; lra].
      + rewrite Rltb_true. split; [tauto|intros [H|[_ H]]; lra].
    - apply Reqb_false in H1. rewrite Rltb_true. split; [tauto|intros [H|[H _]]; [exact H|contradiction]].
  Qed.
  Lemma lexlt_trans_neg (a b c : R * R) : ~ lexlt a b -> lexlt c b -> ~ lexlt a c.
  Proof. unfold lexlt. intros H1 H2 H3. apply H1. lra. Qed.

  Lemma pivot_go_min : forall rest pre best bi,
    pts = pre ++ rest -> (bi < length pre)%nat -> best = P bi ->
    (forall j, (j < length pre)%nat -> ~ lexlt (P j) best) ->
    forall j, (j < n)%nat -> ~ lexlt (P j) (P (@pivot_go RNum rest (length pre) best bi)).
  Proof.
    induction rest as [|p rest IH]; intros pre best bi E Hbi Hbest Hmin j Hj.
    - cbn [pivot_go]. rewrite <- Hbest. apply Hmin. unfold n in Hj. rewrite E, app_nil_r in Hj. exact Hj.
    - cbn [pivot_go].
      assert (Hp : P (length pre) = p).
      { unfold P. rewrite E. rewrite app_nth2 by lia. rewrite Nat.sub_diag. reflexivity. }
      assert (E' : pts = (pre ++ [p]) ++ rest) by (rewrite <- app_assoc; exact E).
      assert (Hlen : length (pre ++ [p]) = Datatypes.S (length pre)) by (rewrite app_length; cbn; lia).
      destruct (@lex_lt RNum p best) eqn:El.
      + apply lex_lt_iff in El. rewrite <- Hlen.
        apply (IH (pre ++ [p]) p (length pre)); auto; [lia|].
        intros k Hk. rewrite Hlen in Hk.
        destruct (Nat.eq_dec k (length pre)) as [->|].
        * rewrite Hp. unfold lexlt. lra.
        * eapply lexlt_trans_neg; [apply Hmin; lia|exact El].
      + rewrite <- Hlen. apply (IH (pre ++ [p]) best bi); auto; [lia|].
        intros k Hk. rewrite Hlen in Hk.
        destruct (Nat.eq_dec k (length pre)) as [->|]; [|apply Hmin; lia].
        rewrite Hp. intros H. apply lex_lt_iff in H. congruence.
  Qed.
  Lemma pivot_is_min j : (j < n)%nat -> ~ lexlt (P j) (P (@pivot_min RNum pts)).
  Proof.
    intros Hj.
    destruct (list_head_dec pts) as [E|(p & rest & E)].
    { exfalso. apply (f_equal (@length (R * R))) in E. fold n in E. cbn in E. lia. }
    rewrite (pivot_min_unfold _ _ _ E).
    apply (pivot_go_min rest [p] p 0%nat); auto.
    - unfold P. rewrite E. reflexivity.
    - intros k Hk. cbn in Hk. assert (k = 0%nat) by lia. subst k. unfold P. rewrite E. cbn [nth]. unfold lexlt. lra.
  Qed.

  Let p0 := @pivot_min RNum pts.
  Lemma p0_lt : (p0 < n)%nat.
  Proof. apply (@pivot_min_lt RNum pts). change (@length (@pt RNum) pts) with n. lia. Qed.

  (* every other point lies in the closed right half-plane of the pivot *)
  Lemma other_halfplane i : (i < n)%nat -> i <> p0 ->
    halfplane (fst (P i) - fst (P p0)) (snd (P i) - snd (P p0)).
  Proof.
    intros Hi Hne. pose proof (pivot_is_min i Hi) as Hmin. fold p0 in Hmin.
    pose proof (Hdist i p0 Hi p0_lt Hne) as Hd.
    unfold lexlt in Hmin. unfold halfplane.
    destruct (Rtotal_order (fst (P i)) (fst (P p0))) as [H|[H|H]].
    - exfalso. apply Hmin. left. exact H.
    - right. split; [lra|].
      destruct (Rtotal_order (snd (P i)) (snd (P p0))) as [H2|[H2|H2]].
      + exfalso. apply Hmin. right. split; assumption.
      + exfalso. apply Hd. destruct (P i), (P p0). cbn in *. congruence.
      + lra.
    - left. lra.
  Qed.

  Lemma cc_p0 i j : cc p0 i j = (fst (P i) - fst (P p0)) * (snd (P j) - snd (P p0)) - (snd (P i) - snd (P p0)) * (fst (P j) - fst (P p0)).
  Proof. unfold cc, ccw_idx, ccw, P, pt0, pt. cbn [T zero sub mul RNum]. ring. Qed.

  (* ---- the comparator is "strictly clockwise around the pivot" *)
  Definition NP (i : nat) : Prop := (i < n)%nat /\ i <> p0.
  Lemma cmp_lt_iff i j : NP i -> NP j -> i <> j -> (@cmp_lt RNum cc dist p0 i j = true <-> cc p0 i j < 0).
  Proof.
    intros [Hi Hi0] [Hj Hj0] Hij. unfold cmp_lt.
    assert (Hne : cc p0 i j <> 0) by (apply Hgp; auto using p0_lt).
    cbn [eqb ltb zero RNum].
    assert (H0 : Reqb (cc p0 i j) 0 = false) by (apply Reqb_false; exact Hne). rewrite H0.
    rewrite negb_true_iff, Rltb_false. lra.
  Qed.
  Lemma cc_antisym i j : cc p0 j i = - cc p0 i j.
  Proof. rewrite !cc_p0. ring. Qed.

  Theorem sorted_clockwise :
    let sp := @sorted_points RNum cc dist n p0 in
    hd 0%nat sp = p0 /\ Permutation sp (seq 0 n) /\
    StronglySorted (fun i j => cc p0 i j < 0) (tl sp).
  Proof.
    cbv zeta. split; [reflexivity|]. split; [apply sorted_points_perm; apply p0_lt|].
    unfold sorted_points. cbn [tl].
    set (others := filter (fun i => negb (i =? p0)%nat) (seq 0 n)).
    assert (HF : Forall NP others).
    { rewrite Forall_forall. intros x Hx. apply filter_In in Hx. destruct Hx as [Hx1 Hx2].
      apply in_seq in Hx1. apply negb_true_iff in Hx2. apply Nat.eqb_neq in Hx2. split; [lia|exact Hx2]. }
    assert (Hnd : NoDup others) by (apply NoDup_filter; apply seq_NoDup).
    pose proof (sort_by_sorted (@cmp_lt RNum cc dist p0) NP) as HS.
    assert (HSS : StronglySorted (fun x y => @cmp_lt RNum cc dist p0 x y = true)
                    (sort_by (fun y x => negb (@cmp_lt RNum cc dist p0 x y)) others)).
    { apply HS; auto.
      - intros x y Hx Hy Hxy. rewrite !cmp_lt_iff by auto. rewrite (cc_antisym x y).
        assert (cc p0 x y <> 0) by (destruct Hx, Hy; apply Hgp; auto using p0_lt). lra.
      - intros x y z Hx Hy Hz Hxy Hyz Hxz. rewrite !cmp_lt_iff by auto. rewrite !cc_p0.
        destruct Hx as [Hx Hx0], Hy as [Hy Hy0], Hz as [Hz Hz0].
        apply ang_trans; apply other_halfplane; auto. }
    assert (HFs : Forall NP (sort_by (fun y x => negb (@cmp_lt RNum cc dist p0 x y)) others)).
    { rewrite Forall_forall in *. intros x Hx. apply HF. eapply Permutation_in; [apply Permutation_sym, sort_by_perm|exact Hx]. }
    assert (Hnds : NoDup (sort_by (fun y x => negb (@cmp_lt RNum cc dist p0 x y)) others)).
    { eapply Permutation_NoDup; [apply sort_by_perm|exact Hnd]. }
    revert HSS HFs Hnds. generalize (sort_by (fun y x => negb (@cmp_lt RNum cc dist p0 x y)) others).
    induction l as [|a l IH]; intros HSS HFs Hnds; [constructor|].
    inversion HSS as [|? ? HSS' Ha]; subst. inversion HFs as [|? ? Na HFs']; subst. inversion Hnds as [|? ? Han Hnds']; subst.
    constructor; [apply IH; auto|].
    rewrite Forall_forall in *. intros z Hz. apply cmp_lt_iff; auto. intros ->. contradiction.
  Qed.

  (* ---- every consecutive triple of the result turns strictly clockwise *)
  Lemma SS_nth (R0 : nat -> nat -> Prop) l : StronglySorted R0 l -> forall i j, (i < j < length l)%nat -> R0 (nth i l 0%nat) (nth j l 0%nat).
  Proof.
    induction 1 as [|a l HS IH Ha]; intros i j Hij; [cbn in Hij; lia|].
    destruct j as [|j]; [lia|]. destruct i as [|i].
    - cbn [nth]. rewrite Forall_forall in Ha. apply Ha. apply nth_In. cbn in Hij. lia.
    - cbn [nth]. apply IH. cbn in Hij. lia.
  Qed.

  Lemma nth_S_tl (l : list nat) k d : nth (Datatypes.S k) l d = nth k (tl l) d.
  Proof. destruct l; [destruct k; reflexivity|reflexivity]. Qed.
  Lemma length_tl (l : list nat) : length (tl l) = (length l - 1)%nat.
  Proof. destruct l; cbn; lia. Qed.

  Theorem graham_turns_clockwise :
    let sp := @sorted_points RNum cc dist n p0 in
    let out := @graham_with RNum cc sp in
    (exists pos, SI pos /\ out = map (fun p => nth p sp 0%nat) pos) /\
    hd 0%nat out = p0 /\
    tripb (fun a b c => @negt RNum (cc a b c)) out = true.
  Proof.
    cbv zeta. remember (@sorted_points RNum cc dist n p0) as sp eqn:Esp.
    pose proof sorted_clockwise as HH. cbv zeta in HH. rewrite <- Esp in HH. destruct HH as (Hhd & Hperm & HSS).
    assert (Hnd : NoDup sp) by (eapply Permutation_NoDup; [apply Permutation_sym; exact Hperm|apply seq_NoDup]).
    assert (Hlen : length sp = n) by (rewrite (Permutation_length Hperm); apply seq_length).
    destruct (@graham_with_total RNum cc sp Hnd ltac:(lia)) as ((pos & HSI & HFp & Eout) & _ & _ & Hhd' & _ & _ & Ht).
    split; [exists pos; auto|]. split; [rewrite Hhd'; exact Hhd|].
    apply tripb_iff.
    (* the tested triples *)
    assert (Htl : trip (fun a b c => cc a b c < 0) (tl (@graham_with RNum cc sp))).
    { unfold turnsb in Ht. apply tripb_iff in Ht. eapply trip_impl; [|exact Ht]. cbn beta.
      intros a b c H. apply negb_true_iff in H. unfold gtest in H. cbn [leb zero RNum] in H. apply Rleb_false in H. exact H. }
    assert (Hall : trip (fun a b c => cc a b c < 0) (@graham_with RNum cc sp)).
    { destruct (@graham_with RNum cc sp) as [|o0 [|o1 [|o2 rest]]] eqn:Eg; try exact I.
      cbn [trip]. split; [|exact Htl].
      (* the first triple: pivot, then two later entries of the clockwise arrangement *)
      destruct pos as [|q0 [|q1 [|q2 pos']]]; try discriminate Eout.
      cbn [map] in Eout. injection Eout as E0 E1 E2 _.
      cbn [hd] in Hhd'.
      assert (Hq : (q0 < q1 < q2)%nat) by (cbn [SI] in HSI; lia).
      inversion HFp as [|? ? _ HF1]; subst. inversion HF1 as [|? ? Hq1 HF2]; subst. inversion HF2 as [|? ? Hq2 _]; subst.
      rewrite Hhd', Hhd.
      destruct q1 as [|q1']; [lia|]. destruct q2 as [|q2']; [lia|].
      rewrite !nth_S_tl. apply (SS_nth _ _ HSS). rewrite length_tl. lia. }
    eapply trip_impl; [|exact Hall]. cbn beta. intros a b c H. unfold negt. cbn [ltb zero RNum]. apply Rltb_true. exact H.
  Qed.
End GP.

(* ---- the boolean hypotheses of the judge imply the Prop hypotheses above *)
Lemma find_row_le (l : list (R * R)) (p : R * R) : forall k j, (j < length l)%nat ->
  @pt_eqb RNum (nth j l (0, 0)) p = true -> exists m, @find_row RNum p l k = Some m /\ (m <= k + j)%nat.
Proof.
  induction l as [|q l IH]; intros k j Hj He; [cbn in Hj; lia|].
  cbn [find_row]. destruct (@pt_eqb RNum q p) eqn:Eq.
  - exists k. split; [reflexivity|lia].
  - destruct j as [|j]; [cbn [nth] in He; congruence|].
    cbn [nth] in He. cbn [length] in Hj. destruct (IH (Datatypes.S k) j ltac:(lia) He) as (m & Hm & Hle).
    exists m. split; [exact Hm|lia].
Qed.
Lemma pt_eqb_refl (p : R * R) : @pt_eqb RNum p p = true.
Proof. unfold pt_eqb. cbn [eqb RNum]. rewrite andb_true_iff. split; apply Reqb_true; reflexivity. Qed.

Lemma distinctb_Prop (pts : list (R * R)) : @distinctb RNum pts = true ->
  forall i j, (i < length pts)%nat -> (j < length pts)%nat -> i <> j -> nth i pts (0, 0) <> nth j pts (0, 0).
Proof.
  intros Hd.
  assert (Hlt : forall i j, (i < j)%nat -> (j < length pts)%nat -> nth i pts (0, 0) <> nth j pts (0, 0)).
  { intros i j Hij Hj E.
    pose proof (@distinct_first_eq RNum pts j Hd Hj) as Hf. unfold first_eq in Hf.
    destruct (find_row_le pts (nth j pts (0, 0)) 0 i ltac:(lia)) as (m & Hm & Hle).
    { rewrite E. apply pt_eqb_refl. }
    assert (Hmj : Some m = Some j) by (rewrite <- Hm; exact Hf). injection Hmj as ->. lia. }
  intros i j Hi Hj Hne. destruct (lt_eq_lt_dec i j) as [[H|H]|H]; [apply Hlt; auto|contradiction|].
  intros E. apply (Hlt j i H Hi). symmetry. exact E.
Qed.

Lemma gpb_Prop (pts : list (R * R)) : @general_positionb RNum pts = true ->
  forall i j k, (i < length pts)%nat -> (j < length pts)%nat -> (k < length pts)%nat ->
    i <> j -> j <> k -> i <> k -> @ccw_idx RNum pts i j k <> 0.
Proof.
  intros Hg.
  assert (Hs : forall i j k, (i < j < k)%nat -> (k < length pts)%nat -> @ccw_idx RNum pts i j k <> 0).
  { intros i j k Hijk Hk. unfold general_positionb in Hg. change (@length (@pt RNum) pts) with (length pts) in Hg. rewrite forallb_forall in Hg.
    specialize (Hg i ltac:(apply in_seq; lia)). rewrite forallb_forall in Hg.
    specialize (Hg j ltac:(apply in_seq; lia)). rewrite forallb_forall in Hg.
    specialize (Hg k ltac:(apply in_seq; lia)). apply negb_true_iff in Hg.
    cbn [eqb zero RNum] in Hg. apply Reqb_false in Hg. exact Hg. }
  assert (Hswap12 : forall a b c, @ccw_idx RNum pts b a c = - @ccw_idx RNum pts a b c).
  { intros. unfold ccw_idx, ccw, pt0, pt. cbn [T zero sub mul RNum]. ring. }
  assert (Hswap23 : forall a b c, @ccw_idx RNum pts a c b = - @ccw_idx RNum pts a b c).
  { intros. unfold ccw_idx, ccw, pt0, pt. cbn [T zero sub mul RNum]. ring. }
  intros i j k Hi Hj Hk Hij Hjk Hik.
  destruct (lt_eq_lt_dec i j) as [[H1|H1]|H1]; [|contradiction|];
  destruct (lt_eq_lt_dec j k) as [[H2|H2]|H2]; try contradiction;
  destruct (lt_eq_lt_dec i k) as [[H3|H3]|H3]; try contradiction; try lia.
  - apply Hs; lia.
  - pose proof (Hs i k j ltac:(lia) Hj) as H. rewrite Hswap23 in H. lra.
  - pose proof (Hs k i j ltac:(lia) Hj) as H. rewrite Hswap12, Hswap23 in H. lra.
  - pose proof (Hs j i k ltac:(lia) Hk) as H. rewrite Hswap12 in H. lra.
  - pose proof (Hs j k i ltac:(lia) Hi) as H. rewrite Hswap23, Hswap12 in H. lra.
  - pose proof (Hs k j i ltac:(lia) Hi) as H. rewrite Hswap12, Hswap23, Hswap12 in H. lra.
Qed.

(* graham_general_position, PARTIAL.  Proved: on >= 3 distinct points, no three collinear, graham_scan completes;
   its pivot is the lexicographically smallest point; the comparator sort puts the others in strictly clockwise order
   around it; the result starts at the pivot, is a subsequence of that order, and all its consecutive triples turn
   strictly clockwise.  NOT proved (judged per case in the correspondence run by graham_gpb, exact arithmetic):
   the closing turns back to the pivot and "the result is exactly the set of extreme vertices". *)
Theorem graham_general_position_partial (pts : list (R * R)) (dist : nat -> R) :
  @distinctb RNum pts = true -> @general_positionb RNum pts = true -> (3 <= length pts)%nat ->
  exists sp out, @graham_sorted RNum pts dist = Some sp /\ @graham_scan RNum pts dist = Some out /\
    let p0 := @pivot_min RNum pts in
    hd 0%nat sp = p0 /\ hd 0%nat out = p0 /\
    (forall j, (j < length pts)%nat -> ~ lexlt (nth j pts (0, 0)) (nth p0 pts (0, 0))) /\
    StronglySorted (fun i j => @ccw_idx RNum pts p0 i j < 0) (tl sp) /\
    (exists pos, SI pos /\ out = map (fun p => nth p sp 0%nat) pos) /\
    tripb (fun a b c => @negt RNum (@ccw_idx RNum pts a b c)) out = true.
Proof.
  intros Hd Hg Hn.
  destruct (@graham_total RNum pts dist Hd Hn) as (sp & out & Hsp & _ & Hout & Eout & _ & _).
  exists sp, out. split; [exact Hsp|]. split; [exact Hout|]. cbv zeta.
  pose proof (distinctb_Prop pts Hd) as Hdist. pose proof (gpb_Prop pts Hg) as Hgp.
  assert (Esp : sp = @sorted_points RNum (@ccw_idx RNum pts) dist (length pts) (@pivot_min RNum pts)).
  { assert (Hp : (@pivot_min RNum pts < length pts)%nat) by (apply (@pivot_min_lt RNum pts); change (@length (@pt RNum) pts) with (length pts); lia).
    unfold graham_sorted in Hsp. rewrite (@distinct_first_eq RNum pts _ Hd Hp) in Hsp.
    destruct pts as [|q pts']; [cbn in Hn; lia|]. injection Hsp as <-. reflexivity. }
  destruct (sorted_clockwise pts dist Hdist Hgp Hn) as (Hhd & _ & HSS).
  destruct (graham_turns_clockwise pts dist Hdist Hgp Hn) as (Hpos & Hhd' & Ht).
  rewrite <- Esp in *. rewrite <- Eout in *.
  repeat split; auto.
  intros j Hj. eapply pivot_is_min; eauto.
Qed.
