(* Proofs/HullScan.v — C18, Tier S: the generic stack scan of Model/Hull.v, for EVERY pop test.
   chain shape (strictly increasing positions from 0 to n-1), turn tests, no underflow. *)
From Coq Require Import List Arith Bool Lia Permutation.
From Knee Require Import Num NpList Model.Hull Proofs.ListFacts.
Import ListNotations.

(* adjacent-window predicates (Prop versions of tripb / pairb) *)
Fixpoint trip (P : nat -> nat -> nat -> Prop) (l : list nat) : Prop :=
  match l with
  | a :: ((b :: c :: _) as t) => P a b c /\ trip P t
  | _ => True
  end.
Fixpoint pairs (P : nat -> nat -> Prop) (l : list nat) : Prop :=
  match l with
  | a :: ((b :: _) as t) => P a b /\ pairs P t
  | _ => True
  end.

Lemma tripb_iff p l : tripb p l = true <-> trip (fun a b c => p a b c = true) l.
Proof.
  induction l as [|a [|b [|c l']] IH]; cbn [tripb trip]; try tauto.
  rewrite andb_true_iff. cbn [tripb trip] in IH. tauto.
Qed.
Lemma pairb_iff p l : pairb p l = true <-> pairs (fun a b => p a b = true) l.
Proof.
  induction l as [|a [|b l'] IH]; cbn [pairb pairs]; try tauto.
  rewrite andb_true_iff. cbn [pairb pairs] in IH. tauto.
Qed.
Lemma trip_impl (P Q : nat -> nat -> nat -> Prop) l : (forall a b c, P a b c -> Q a b c) -> trip P l -> trip Q l.
Proof.
  intros H. induction l as [|a [|b [|c l']] IH]; cbn [trip]; auto.
  intros [H1 H2]. split; [apply H; exact H1|apply IH; exact H2].
Qed.
Lemma trip_tl (P : nat -> nat -> nat -> Prop) a l : trip P (a :: l) -> trip P l.
Proof. destruct l as [|b [|c l']]; cbn [trip]; tauto. Qed.
Lemma trip_all (P : nat -> nat -> nat -> Prop) l : (forall a b c, In c l -> P a b c) -> trip P l.
Proof.
  induction l as [|a [|b [|c l']] IH]; intros H; cbn [trip]; auto.
  split; [apply H; cbn; auto|]. apply IH. intros x y z Hz. apply H. right. exact Hz.
Qed.
Lemma trip_prefix (P : nat -> nat -> nat -> Prop) l1 : forall l2, trip P (l1 ++ l2) -> trip P l1.
Proof.
  induction l1 as [|a [|b [|c l1']] IH]; intros l2 H; cbn [trip]; auto.
  cbn [app trip] in H. destruct H as [H1 H2]. split; auto. apply (IH l2). exact H2.
Qed.
Lemma trip_snoc (P : nat -> nat -> nat -> Prop) l : forall a b x, trip P (l ++ [a; b]) -> P a b x -> trip P (l ++ [a; b; x]).
Proof.
  induction l as [|c l IH]; intros a b x H Hx.
  - cbn. auto.
  - destruct l as [|d l'].
    + cbn in *. tauto.
    + destruct l' as [|e l''].
      * cbn in *. tauto.
      * cbn [app] in *. cbn [trip] in H. destruct H as [H1 H2].
        cbn [trip]. split; auto. apply (IH a b x); auto.
Qed.

Lemma SI_snoc l : forall x, SI l -> Forall (fun y => y < x) l -> SI (l ++ [x]).
Proof.
  induction l as [|a l IH]; intros x HS HF; [exact I|].
  inversion HF as [|? ? Ha HF']; subst.
  destruct l as [|b l'].
  - cbn. auto.
  - cbn [app]. cbn [SI]. destruct HS as [Hab HS]. split; auto. apply (IH x); auto.
Qed.
Lemma SI_seq : forall m a, SI (seq a m).
Proof.
  induction m as [|m IH]; intros a; [exact I|].
  cbn [seq]. destruct m as [|m']; [exact I|].
  cbn [seq SI]. split; [lia|]. apply (IH (S a)).
Qed.
Lemma hd_app_nonnil {A} (l1 l2 : list A) d : l1 <> [] -> hd d (l1 ++ l2) = hd d l1.
Proof. destruct l1; [congruence|reflexivity]. Qed.
Lemma last_seq m a : 1 <= m -> last (seq a m) 0 = a + m - 1.
Proof.
  revert a. induction m as [|m IH]; intros a Hm; [lia|].
  destruct m as [|m']; [cbn; lia|].
  change (last (seq a (S (S m'))) 0) with (last (seq (S a) (S m')) 0). rewrite IH; lia.
Qed.

Section ScanFacts.
  Variable test : nat -> nat -> nat -> bool.

  Lemma pop_suffix i st : exists pre, st = pre ++ pop_while test i st.
  Proof.
    induction st as [|b st IH]; [exists []; reflexivity|].
    destruct st as [|a st']; [exists []; reflexivity|].
    cbn [pop_while]. destruct (test a b i).
    - destruct IH as [pre Hpre]. exists (b :: pre). cbn [app]. f_equal. exact Hpre.
    - exists []. reflexivity.
  Qed.
  (* no underflow: the bottom of the stack is never popped *)
  Lemma pop_nonempty i st : st <> [] -> pop_while test i st <> [].
  Proof.
    induction st as [|b st IH]; [congruence|]. intros _.
    destruct st as [|a st']; [cbn; congruence|].
    cbn [pop_while]. destruct (test a b i); [apply IH|]; congruence.
  Qed.
  (* when the loop stops with two or more entries, the top two fail the pop test *)
  Lemma pop_top i st :
    match pop_while test i st with b :: a :: _ => test a b i = false | _ => True end.
  Proof.
    induction st as [|b st IH]; [exact I|].
    destruct st as [|a st']; [exact I|].
    cbn [pop_while]. destruct (test a b i) eqn:E; [exact IH|exact E].
  Qed.

  Variable k : nat.
  Hypothesis k_pos : 1 <= k.

  (* a triple whose last entry was pushed by the loop failed the code's pop test *)
  Definition tested (a b c : nat) : Prop := k <= c -> test a b c = false.

  Definition Inv (i : nat) (st : list nat) : Prop :=
    let out := rev st in
    st <> [] /\ hd 1 out = 0 /\ last out 0 = i - 1 /\ Forall (fun y => y < i) st /\ SI out /\ trip tested out
    /\ Nat.min i 2 <= length st.

  Lemma Inv_init : Inv k (rev (seq 0 k)).
  Proof.
    unfold Inv. cbv zeta. rewrite rev_involutive.
    assert (Hk : seq 0 k <> []) by (destruct k; [lia|cbn; congruence]).
    repeat split.
    - intros H. apply (f_equal (@rev nat)) in H. rewrite rev_involutive in H. cbn in H. auto.
    - destruct k; [lia|reflexivity].
    - rewrite last_seq; lia.
    - rewrite Forall_forall. intros y Hy. apply in_rev in Hy. apply in_seq in Hy. lia.
    - apply SI_seq.
    - apply trip_all. intros a b c Hc Hkc. apply in_seq in Hc. lia.
    - rewrite rev_length, seq_length. lia.
  Qed.

  Lemma Inv_step i st : Inv i st -> Inv (S i) (scan_step test st i).
  Proof.
    unfold Inv. cbv zeta. intros (Hne & Hhd & Hlast & HF & HS & HT & Hlen).
    unfold scan_step.
    destruct (pop_suffix i st) as [pre Hpre].
    pose proof (pop_nonempty i st Hne) as Hne'.
    pose proof (pop_top i st) as Htop.
    set (st' := pop_while test i st) in *.
    assert (Hrev : rev st = rev st' ++ rev pre) by (rewrite Hpre at 1; apply rev_app_distr).
    assert (Hrne : rev st' <> []).
    { intros H. apply (f_equal (@rev nat)) in H. rewrite rev_involutive in H. cbn in H. auto. }
    assert (HF' : Forall (fun y => y < i) st').
    { rewrite Hpre in HF. apply Forall_app in HF. tauto. }
    cbn [rev].
    repeat split.
    - congruence.
    - rewrite hd_app_nonnil by exact Hrne. rewrite Hrev in Hhd. rewrite hd_app_nonnil in Hhd by exact Hrne. exact Hhd.
    - rewrite last_last. lia.
    - constructor; [lia|]. eapply Forall_impl; [|exact HF']. cbn. intros; lia.
    - apply SI_snoc.
      + rewrite Hrev in HS. apply SI_app_inv in HS. tauto.
      + rewrite Forall_forall. intros y Hy. apply in_rev in Hy. rewrite Forall_forall in HF'. auto.
    - rewrite Hrev in HT. apply trip_prefix in HT.
      destruct st' as [|b [|a r]]; [congruence| |].
      + cbn. exact I.
      + cbn [rev] in *. rewrite <- !app_assoc in *. cbn [app] in *.
        apply trip_snoc; [exact HT|]. intros _. exact Htop.
    - cbn [length]. destruct st' as [|b r]; [congruence|]. cbn [length]. lia.
  Qed.

  Lemma Inv_fold m : forall i st, Inv i st -> Inv (i + m) (fold_left (scan_step test) (seq i m) st).
  Proof.
    induction m as [|m IH]; intros i st H.
    - cbn. rewrite Nat.add_0_r. exact H.
    - cbn [seq fold_left]. replace (i + S m) with (S i + m) by lia. apply IH. apply Inv_step. exact H.
  Qed.

  (* the generic scan theorem: for every pop test, every n >= k >= 1 *)
  Theorem scan_shape n : k <= n ->
    let out := scan test k n in
    SI out /\ hd 1 out = 0 /\ last out 0 = n - 1 /\ Forall (fun y => y < n) out /\ trip tested out
    /\ Nat.min n 2 <= length out.
  Proof.
    intros Hkn. cbv zeta. unfold scan, scan_stack.
    pose proof (Inv_fold (n - k) k _ Inv_init) as H. replace (k + (n - k)) with n in H by lia.
    unfold Inv in H. cbv zeta in H. destruct H as (Hne & Hhd & Hlast & HF & HS & HT & Hlen).
    repeat split; auto.
    - rewrite Forall_forall in *. intros y Hy. apply in_rev in Hy. auto.
    - rewrite rev_length. exact Hlen.
  Qed.
End ScanFacts.

(* the scan only depends on the answers of the pop test *)
Lemma pop_while_ext t1 t2 i : (forall a b, t1 a b i = t2 a b i) -> forall st, pop_while t1 i st = pop_while t2 i st.
Proof.
  intros H. induction st as [|b st IH]; [reflexivity|].
  destruct st as [|a st']; [reflexivity|].
  cbn [pop_while]. rewrite H. destruct (t2 a b i); [exact IH|reflexivity].
Qed.
Lemma scan_ext t1 t2 k n : (forall a b i, t1 a b i = t2 a b i) -> scan t1 k n = scan t2 k n.
Proof.
  intros H. unfold scan, scan_stack. f_equal.
  generalize (rev (seq 0 k)). generalize (seq k (n - k)).
  induction l as [|i l IH]; intros st; [reflexivity|].
  cbn [fold_left]. unfold scan_step at 2 4. rewrite (pop_while_ext t1 t2 i) by (intros; apply H). apply IH.
Qed.

Lemma chainb_iff n out : chainb n out = true <-> SI out /\ hd 1 out = 0 /\ last out 0 = n - 1 /\ 2 <= length out.
Proof. unfold chainb. rewrite !andb_true_iff, SI_iff, !Nat.eqb_eq, Nat.leb_le. tauto. Qed.

(* in a strictly increasing chain from 0 every triple ends at a position >= 2 (>= 3 after the first) *)
Lemma SI_trip_ge (P : nat -> nat -> nat -> Prop) l m : SI l -> m <= hd m l -> trip (fun a b c => m + 2 <= c -> P a b c) l -> trip P l.
Proof.
  revert m. induction l as [|a [|b [|c l']] IH]; intros m HS Hm HT; cbn [trip]; auto.
  cbn [hd] in Hm. destruct HS as [Hab HS]. pose proof HS as [Hbc _].
  destruct HT as [H1 H2]. split; [apply H1; lia|].
  apply (IH (S m)); auto.
  - cbn [hd]. lia.
  - eapply trip_impl; [|exact H2]. cbn. intros x y z Hz Hle. apply Hz. lia.
Qed.
