(* Proofs/EvenPointsReal.v — Tier A: over the reals even-point insertion always completes on a non-flat curve
   with tx > 0 (the candidate count ceil(w/(2 tx)) of a qualifying segment is at least 2, never 0). *)
From Coq Require Import Reals ZArith List Bool Lra Lia.
From Knee Require Import Num NumR NpList Model.EvenPoints Proofs.EvenPointsFacts.
Import ListNotations.
Local Open Scope R_scope.

Lemma Rceil_gt1 (q : R) : 1 < q -> (2 <= Rceil q)%Z.
Proof.
  intros Hq. unfold Rceil, Rfloor. destruct (archimed (- q)) as [H1 H2].
  assert (H3 : IZR (up (- q)) < 0) by lra.
  apply lt_IZR in H3. lia.
Qed.

Theorem even_completes_R (xs ys : list R) (tx ty : R) (segs : list (nat * nat)) (knees : list nat) (ext : bool) :
  0 < tx -> @span_x RNum xs <> 0 -> @span_y RNum ys <> 0 ->
  exists res, @even_spec RNum xs ys tx ty segs knees ext = Some res.
Proof.
  intros Htx Hx Hy. apply (@even_spec_total RNum xs ys tx ty segs knees ext).
  - apply Reqb_false. exact Hx.
  - apply Reqb_false. exact Hy.
  - intros l r _. unfold qualifies, count, pdx, pdy, pydiv.
    change (@eqb RNum) with Reqb. change (@zero RNum) with 0.
    rewrite (proj2 (Reqb_false _ _) Hx), (proj2 (Reqb_false _ _) Hy).
    set (w := @div RNum (@abs RNum (@sub RNum (@xat RNum xs r) (@xat RNum xs l))) (@span_x RNum xs)).
    intros H. inversion H as [H']. apply andb_true_iff in H'. destruct H' as [Hw _].
    change (@ltb RNum) with Rltb in Hw. apply Rltb_true in Hw.
    assert (H2 : @mul RNum (@two RNum) tx = 2 * tx) by reflexivity.
    rewrite H2 in *.
    assert (Hne : 2 * tx <> 0) by lra. rewrite (proj2 (Reqb_false _ _) Hne).
    eexists. split; [reflexivity|].
    assert (1 < w / (2 * tx)).
    { apply Rmult_lt_reg_r with (r := 2 * tx); [lra|]. unfold Rdiv. rewrite Rmult_assoc, Rinv_l by lra. lra. }
    pose proof (Rceil_gt1 _ H0). change (@div RNum) with Rdiv. lia.
Qed.
