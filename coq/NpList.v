(* NpList.v — exact list semantics of the NumPy / Python idioms the package uses. *)
From Coq Require Import ZArith List Bool Arith Lia.
From Knee Require Import Num.
Import ListNotations.
Local Open Scope num_scope.

Section NpList.
  Context {N : Num}.

  (* np.argmax on a float array: index of the first maximum; the first NaN wins.
     NumPy's loop: mp = a[0]; for i: if (!(a[i] <= mp)) { mp = a[i]; idx = i; if isnan(mp) break }  *)
  Fixpoint argmax_go (l : list (T N)) (i : nat) (best : T N) (bi : nat) : nat :=
    match l with
    | [] => bi
    | x :: l' =>
        if isnan best then bi
        else if negb (x <=?! best) then argmax_go l' (S i) x i
        else argmax_go l' (S i) best bi
    end.
  Definition argmax (l : list (T N)) : nat :=
    match l with [] => 0 | x :: l' => argmax_go l' 1 x 0 end.

  (* np.argmin: if (!(a[i] >= mp)) *)
  Fixpoint argmin_go (l : list (T N)) (i : nat) (best : T N) (bi : nat) : nat :=
    match l with
    | [] => bi
    | x :: l' =>
        if isnan best then bi
        else if negb (best <=?! x) then argmin_go l' (S i) x i
        else argmin_go l' (S i) best bi
    end.
  Definition argmin (l : list (T N)) : nat :=
    match l with [] => 0 | x :: l' => argmin_go l' 1 x 0 end.

  (* a[1:-1] *)
  Definition interior {A} (l : list A) : list A := removelast (tl l).
  (* Python slice a[i:j] for 0 <= i, j (clipping to the length is what firstn/skipn do) *)
  Definition slice {A} (l : list A) (i j : nat) : list A := firstn (j - i) (skipn i l).

  (* np.all(d < c) *)
  Definition all_lt (d : list (T N)) (c : T N) : bool := forallb (fun x => x <?! c) d.

  (* ndarray.max() / np.max: NaN propagates (first NaN), otherwise the maximum *)
  Definition np_max (l : list (T N)) : T N := nth (argmax l) l zero.
  Definition np_min (l : list (T N)) : T N := nth (argmin l) l zero.

  (* np.diff *)
  Fixpoint np_diff (l : list (T N)) : list (T N) :=
    match l with
    | a :: ((b :: _) as l') => (b -! a) :: np_diff l'
    | _ => []
    end.

  (* NumPy's pairwise summation for a contiguous float64 array (np.sum, ndarray.sum, np.mean):
     sequential below 8 elements, eight interleaved accumulators up to 128, recursive halving
     at multiples of 8 above.  Validated bit-for-bit against np.sum (DESIGN Appendix A). *)
  Fixpoint acc8 (fuel : nat) (r l : list (T N)) : list (T N) :=
    match fuel with
    | O => r
    | S f =>
        match l, r with
        | a0::a1::a2::a3::a4::a5::a6::a7::rest, r0::r1::r2::r3::r4::r5::r6::r7::_ =>
            acc8 f [r0+!a0; r1+!a1; r2+!a2; r3+!a3; r4+!a4; r5+!a5; r6+!a6; r7+!a7] rest
        | _, _ => r
        end
    end.
  Definition block_sum (l : list (T N)) : T N :=
    let n := length l in
    if n <? 8 then fold_left add l zero else    (* numpy starts from -0.0?  see np_sum *)
    let nb := n - n mod 8 in
    let body := firstn nb l in
    match acc8 n (firstn 8 body) (skipn 8 body) with
    | r0::r1::r2::r3::r4::r5::r6::r7::_ =>
        fold_left add (skipn nb l) (((r0+!r1)+!(r2+!r3))+!((r4+!r5)+!(r6+!r7)))
    | _ => zero
    end.
  Fixpoint np_sum_go (fuel : nat) (l : list (T N)) : T N :=
    let n := length l in
    if n <=? 128 then block_sum l else
    match fuel with
    | O => block_sum l
    | S f =>
        let n2 := n / 2 in
        let n2 := n2 - n2 mod 8 in
        np_sum_go f (firstn n2 l) +! np_sum_go f (skipn n2 l)
    end.
  Definition np_sum (l : list (T N)) : T N := zero +! np_sum_go (length l) l.
  Definition np_mean (l : list (T N)) : T N := np_sum l /! ofN (length l).
  (* numba's np.mean / np.sum inside metrics.py: a plain left fold *)
  Definition seq_mean (l : list (T N)) : T N := seq_sum l /! ofN (length l).

  (* stable insertion into a list sorted by a key: Python's list.sort / sorted are stable, so
     appending one element to a sorted list and sorting places it after every element whose key is <= *)
  Fixpoint insert_by {A} (le : A -> A -> bool) (x : A) (l : list A) : list A :=
    match l with
    | [] => [x]
    | y :: l' => if le y x then y :: insert_by le x l' else x :: l
    end.
  (* stable insertion sort (later elements are inserted after equal earlier ones) *)
  Definition sort_by {A} (le : A -> A -> bool) (l : list A) : list A :=
    fold_left (fun acc x => insert_by le x acc) l [].
End NpList.

(* integer helpers *)
Fixpoint insert_nat (x : nat) (l : list nat) : list nat :=
  match l with
  | [] => [x]
  | y :: l' => if y <=? x then y :: insert_nat x l' else x :: l
  end.
Definition sort_nat (l : list nat) : list nat := fold_left (fun acc x => insert_nat x acc) l [].
Fixpoint strictly_increasing (l : list nat) : bool :=
  match l with
  | a :: ((b :: _) as l') => (a <? b) && strictly_increasing l'
  | _ => true
  end.
Fixpoint nondecreasing (l : list nat) : bool :=
  match l with
  | a :: ((b :: _) as l') => (a <=? b) && nondecreasing l'
  | _ => true
  end.
Fixpoint list_eqb {A} (eq : A -> A -> bool) (l1 l2 : list A) : bool :=
  match l1, l2 with
  | [], [] => true
  | a :: l1', b :: l2' => eq a b && list_eqb eq l1' l2'
  | _, _ => false
  end.
Definition nat_list_eqb := list_eqb Nat.eqb.
(* np.unique on an integer array: sorted, duplicate-free *)
Fixpoint dedup_sorted (l : list nat) : list nat :=
  match l with
  | a :: ((b :: _) as l') => if a =? b then dedup_sorted l' else a :: dedup_sorted l'
  | _ => l
  end.
Definition np_unique (l : list nat) : list nat := dedup_sorted (sort_nat l).
