(* Legacy/LinkingLegacy.v — the link facts of the PINNED commit d561702 (Legacy/LinkFactsPinned.v, generated once by the C20
   translator harness/linkfacts.py from that source tree) and a machine-checked account of the dangling references it holds:
   documentation of the three LINK defects, not used by any check.

   D6   convex_hull.py:128, 154   `ccw(...)` in graham_scan_lower / graham_scan_upper: the module defines `_ccw` only
        -> NameError (repaired by /repo 9293dec);
   D9   kneedle.py:117, 161       `ema.linear(...)`: uts.ema of the installed pyUTSAlgorithms has `ema_linear`, no `linear`
        -> AttributeError (repaired by /repo 20b66d9);
   D14  rdp.py:373-383            `plt.figure / plot / savefig / close` in plot_frame: `plt` is bound nowhere
        -> NameError (repaired by /repo 869e244);
        evaluation.py:831         compute_global_segment_cost calls compute_cost with 3 of its 4 parameters
        -> TypeError; NOT repaired: the open KNOWN-FINDING of C20 (present in both snapshots).
   Property falsified: C20 "every name, every attribute of an imported module and every intra-package call signature used
   anywhere in the package resolves, so no code path can fail with NameError, AttributeError or an arity TypeError".

   Observed on the real pre-fix code (PYTHONPATH = worktree of d561702):
     convex_hull.graham_scan_lower(P)                    -> NameError: name 'ccw' is not defined
     postprocessing.filter_clusters(..., ClusterRanking.hull) -> NameError: name 'ccw' is not defined  (convex_hull.py:128)
     kneedle.knee(P)                                     -> AttributeError: module 'uts.ema' has no attribute 'linear'
     rdp.plot_frame(P, [0,7], 'x.png')                   -> NameError: name 'plt' is not defined
     evaluation.compute_global_segment_cost(P, [0,3,7], Metrics.smape) -> ValueError: too many values to unpack
        (the earlier statement of the same legacy function fails first; the arity defect is the open finding)
   On the repaired /repo: graham_scan_lower(P) -> [0 1 2 3 4]; kneedle.knee(P) -> 4; plot_frame gets past `plt` (it then needs
   the ./img directory of the demos: FileNotFoundError, not a link error).

   `Resolves` is the relational semantics of Python's name / attribute / call binding of Model/Linking.v; the checker
   is proved sound and complete for it (Props/C20.v), so `~ Resolves` below is a statement about the semantics, obtained
   by computation. *)
From Coq Require Import List String Bool Arith.
From Knee Require Import Model.Linking Proofs.LinkingFacts.
From Knee Require Legacy.LinkFactsPinned Legacy.LinkFactsRepaired.
Import ListNotations.
Local Open Scope string_scope.

Definition pinned : program := Legacy.LinkFactsPinned.facts.
Definition repaired : program := Legacy.LinkFactsRepaired.facts.

(* module, scope, source line, reference of a located reference *)
Definition describe (lr : lref) : string * string * nat * ref :=
  let '(m, s, ln, r) := lr in (m_name m, sc_name s, ln, r).

(* exactly ten references of the pinned tree do not resolve: D6 (2), the open arity finding (1), D9 (2), D14-plt (5) *)
Example pinned_failing_refs :
  map describe (failing_refs pinned) =
  [("kneeliverse.convex_hull", "graham_scan_lower", 128, RCall "ccw" [] 3 [] false false);
   ("kneeliverse.convex_hull", "graham_scan_upper", 154, RCall "ccw" [] 3 [] false false);
   ("kneeliverse.evaluation", "compute_global_segment_cost", 831, RCall "compute_cost" [] 3 [] false false);
   ("kneeliverse.kneedle", "_knee", 117, RCall "ema" ["linear"] 2 [] false false);
   ("kneeliverse.kneedle", "_knees", 161, RCall "ema" ["linear"] 2 [] false false);
   ("kneeliverse.rdp", "plot_frame", 373, RCall "plt" ["figure"] 0 ["figsize"] false false);
   ("kneeliverse.rdp", "plot_frame", 376, RCall "plt" ["plot"] 2 [] false false);
   ("kneeliverse.rdp", "plot_frame", 380, RCall "plt" ["plot"] 2 ["marker"; "markersize"] false false);
   ("kneeliverse.rdp", "plot_frame", 381, RCall "plt" ["savefig"] 1 ["transparent"; "facecolor"] false false);
   ("kneeliverse.rdp", "plot_frame", 383, RCall "plt" ["close"] 0 [] false false)].
Proof. vm_compute. reflexivity. Qed.

(* position in `refs`, line, diagnosis (1 NameError, 2 AttributeError, 3 arity TypeError): what ./check C20 would print *)
Example pinned_failing_idx :
  failing_idx pinned =
  [(224, 128, 1); (241, 154, 1); (1203, 831, 3); (1528, 117, 2); (1551, 161, 2);
   (3375, 373, 1); (3378, 376, 1); (3385, 380, 1); (3388, 381, 1); (3392, 383, 1)].
Proof. vm_compute. reflexivity. Qed.

(* the clause of C20 fails on the pinned program: it does not check, even with the open finding excused, and for each of
   D6, D9, D14-plt there is a reference OF THE PROGRAM that does not resolve in the semantics *)
Theorem linking_legacy_refuted :
  check_program pinned = false /\
  check_program_w [("kneeliverse.evaluation", "compute_global_segment_cost", 3)] pinned = false /\
  (exists lr, In lr (refs pinned) /\ ~ Resolves pinned lr /\
              describe lr = ("kneeliverse.convex_hull", "graham_scan_lower", 128, RCall "ccw" [] 3 [] false false)) /\
  (exists lr, In lr (refs pinned) /\ ~ Resolves pinned lr /\
              describe lr = ("kneeliverse.kneedle", "_knee", 117, RCall "ema" ["linear"] 2 [] false false)) /\
  (exists lr, In lr (refs pinned) /\ ~ Resolves pinned lr /\
              describe lr = ("kneeliverse.rdp", "plot_frame", 373, RCall "plt" ["figure"] 0 ["figsize"] false false)).
Proof.
  split; [vm_compute; reflexivity|]. split; [vm_compute; reflexivity|].
  assert (pick : forall k d, nth_error (map describe (failing_refs pinned)) k = Some d ->
            exists lr, In lr (refs pinned) /\ ~ Resolves pinned lr /\ describe lr = d).
  { intros k d Hk. destruct (nth_error (failing_refs pinned) k) as [lr|] eqn:E.
    - exists lr. pose proof (map_nth_error describe k (failing_refs pinned) E) as Hm. rewrite Hk in Hm.
      destruct (proj1 (failing_refs_spec pinned lr) (nth_error_In _ _ E)) as [Hin Hn].
      split; [exact Hin|]. split; [exact Hn|]. inversion Hm. reflexivity.
    - apply nth_error_None in E. rewrite <- (map_length describe) in E. apply nth_error_None in E. congruence. }
  rewrite pinned_failing_refs in pick.
  split; [|split].
  - apply (pick 0). reflexivity.
  - apply (pick 3). reflexivity.
  - apply (pick 5). reflexivity.
Qed.
Print Assumptions linking_legacy_refuted.

(* the REPAIRED package (/repo 1b3ec6b): only the open arity finding is left, and with it excused by name every reference
   of every module resolves *)
Example repaired_failing_refs :
  map describe (failing_refs repaired) =
  [("kneeliverse.evaluation", "compute_global_segment_cost", 831, RCall "compute_cost" [] 3 [] false false)].
Proof. vm_compute. reflexivity. Qed.
Theorem linking_repaired_linked :
  check_program_w [("kneeliverse.evaluation", "compute_global_segment_cost", 3)] repaired = true /\
  forall lr, In lr (refs repaired) ->
    Resolves repaired lr \/ Waived [("kneeliverse.evaluation", "compute_global_segment_cost", 3)] repaired lr.
Proof.
  assert (H : check_program_w [("kneeliverse.evaluation", "compute_global_segment_cost", 3)] repaired = true)
    by (vm_compute; reflexivity).
  split; [exact H|exact (check_sound_w _ repaired H)].
Qed.
Print Assumptions linking_repaired_linked.
