(* Legacy/MengerLegacy.v — the PRE-FIX menger.menger_curvature of the pinned commit d561702 (menger.py:46:
   `nom = 2.0 * math.fabs((x2-x1)*(y3-y2))-((y2-y1)*(x3-x2))`: the fabs closes after the FIRST product) and machine-checked
   witnesses of what it breaks: documentation of defect D8 (repaired in /repo by c03761e:
   `2.0 * math.fabs((x2-x1)*(y3-y2)-(y2-y1)*(x3-x2))`); not used by any check.
   Properties falsified:
     C03 "every detector finds the corner of an exact two-slope elbow" (menger.knee misses it);
     C17 "Menger curvature is the reciprocal circumradius: > 0 on a proper triangle, 0 on a collinear triple, symmetric in
          its three arguments" (negative at the sharpest corner, non-zero on collinear triples, not symmetric).

   Observed on the real pre-fix code (PYTHONPATH = worktree of d561702), P = the elbow of Proofs/ElbowBase.v
   [(0,11),(1,9),(3,5),(4,3),(6,2.5),(7,2.25),(9,1.75),(10,1.5)] (slopes -2 and -1/4, corner at index 3):
     [0] + [menger_curvature(P[i], P[i-1], P[i+1])] + [0] ->
        [0x0.0p+0, 0x1.6e5b7d16657e1p-4, 0x1.6e5b7d16657e1p-3, -0x1.c7113571338e3p-5, 0x1.d37e9adf377a2p-3,
         0x1.d37e9adf377a2p-4, 0x1.d37e9adf377a2p-3, 0x0.0p+0]          (i.e. 0.0894, 0.1789, -0.0556, 0.2283, ...)
     menger.knee(P) -> 4                                                  (repaired /repo: 3; array 0,0,0,0.3889,0,0,0,0)
     menger_curvature((0,0),(1,1),(2,0)) -> 0.25;  menger_curvature((1,1),(0,0),(2,0)) -> 0.5      (repaired: 1.0, 1.0)
     menger_curvature((1,1),(0,0),(2,2)) -> 1.0606601717798212  (collinear)                       (repaired: 0.0)
   The float model below reproduces the eight array values bit for bit (`menger_array_legacy_observed`). *)
From Coq Require Import Reals ZArith List Arith Bool PrimFloat Lra Lia.
From Knee Require Import Num NumFloat NumR NpList Model.Uts Model.DetectorsFormula
     Proofs.GeometryFacts Proofs.ElbowBase Proofs.ElbowMenger.
Import ListNotations.
Local Open Scope num_scope.

Section MengerLegacy.
  Context {N : Num}.
  Notation pt := (@pt N).
  (* py (pinned): menger.py:26-51   nom = 2.0 * fabs((x2-x1)*(y3-y2)) - ((y2-y1)*(x3-x2));  temp, dem as now *)
  Definition menger_curvature_legacy (f g h : pt) : T N :=
    let '(x1, y1) := f in let '(x2, y2) := g in let '(x3, y3) := h in
    let nom := two *! abs ((x2 -! x1) *! (y3 -! y2)) -! (y2 -! y1) *! (x3 -! x2) in
    let temp := abs (sq (x2 -! x1) +! sq (y2 -! y1)) *! abs (sq (x3 -! x2) +! sq (y3 -! y2))
                *! abs (sq (x1 -! x3) +! sq (y1 -! y3)) in
    nom /! sqrt temp.
  (* py: menger.py:54-76 knee (unchanged by the fix) *)
  Definition menger_array_legacy (pts : list pt) : list (T N) :=
    zero :: win3 (fun g f h => menger_curvature_legacy f g h) pts ++ [zero].
  Definition menger_knee_legacy (pts : list pt) : nat := argmax (menger_array_legacy pts).
End MengerLegacy.

(* ------------------------------------------------------------------ binary64: the observed run *)
Definition elbow_f : list (@pt FloatNum) :=
  [(0, 11); (1, 9); (3, 5); (4, 3); (6, 0x1.4p+1); (7, 0x1.2p+1); (9, 0x1.cp+0); (10, 0x1.8p+0)]%float.

Example menger_array_legacy_observed :
  @menger_array_legacy FloatNum elbow_f =
  [0x0.0p+0; 0x1.6e5b7d16657e1p-4; 0x1.6e5b7d16657e1p-3; -0x1.c7113571338e3p-5; 0x1.d37e9adf377a2p-3;
   0x1.d37e9adf377a2p-4; 0x1.d37e9adf377a2p-3; 0x0.0p+0]%float.
Proof. vm_compute. reflexivity. Qed.

Theorem menger_knee_legacy_refuted_float :
  @menger_knee_legacy FloatNum elbow_f = 4 /\ @menger_knee_legacy FloatNum elbow_f <> 3 /\
  PrimFloat.ltb (nth 3 (@menger_array_legacy FloatNum elbow_f) 0%float) 0%float = true.
Proof. split; [vm_compute; reflexivity|]. split; [vm_compute; discriminate|vm_compute; reflexivity]. Qed.
Print Assumptions menger_knee_legacy_refuted_float.

(* the CURRENT model on the same doubles *)
Example menger_knee_current_float :
  @menger_knee FloatNum elbow_f = 3 /\
  @menger_array FloatNum elbow_f = [0; 0; 0; 0x1.8e2f0ec30d1c7p-2; 0; 0; 0; 0]%float.
Proof. split; vm_compute; reflexivity. Qed.

(* ------------------------------------------------------------------ real arithmetic: the clause itself *)
Local Open Scope R_scope.

Lemma menger_legacy_R (x1 y1 x2 y2 x3 y3 : R) :
  @menger_curvature_legacy RNum (x1, y1) (x2, y2) (x3, y3) =
  (2 * Rabs ((x2 - x1) * (y3 - y2)) - (y2 - y1) * (x3 - x2)) /
  R_sqrt.sqrt (Rabs ((x2 - x1) * (x2 - x1) + (y2 - y1) * (y2 - y1)) * Rabs ((x3 - x2) * (x3 - x2) + (y3 - y2) * (y3 - y2))
        * Rabs ((x1 - x3) * (x1 - x3) + (y1 - y3) * (y1 - y3))).
Proof. reflexivity. Qed.

Lemma Rdiv_neg_pos (a b : R) : a < 0 -> 0 < b -> a / b < 0.
Proof.
  intros Ha Hb. unfold Rdiv. pose proof (Rinv_0_lt_compat b Hb) as Hi.
  apply Ropp_lt_cancel. rewrite Ropp_0, Ropp_mult_distr_l. apply Rmult_lt_0_compat; lra.
Qed.

(* the value the pinned code computes AT THE CORNER of the elbow (f = P[3], g = P[2], h = P[4]) is negative:
   numerator 2*|(-1)(-5/2)| - 2*3 = -1 *)
Lemma menger_legacy_corner_negative : @menger_curvature_legacy RNum (4, 3) (3, 5) (6, 5 / 2) < 0.
Proof.
  rewrite menger_legacy_R. apply Rdiv_neg_pos.
  - replace ((3 - 4) * (5 / 2 - 5)) with (5 / 2) by lra. rewrite Rabs_pos_eq by lra. lra.
  - apply sqrt_lt_R0.
    replace ((3 - 4) * (3 - 4) + (5 - 3) * (5 - 3)) with 5 by lra.
    replace ((6 - 3) * (6 - 3) + (5 / 2 - 5) * (5 / 2 - 5)) with (61 / 4) by lra.
    replace ((4 - 6) * (4 - 6) + (3 - 5 / 2) * (3 - 5 / 2)) with (17 / 4) by lra.
    rewrite !Rabs_pos_eq by lra. lra.
Qed.

(* np.argmax never returns a position whose value is <= the running maximum it started from *)
Lemma argmax_go_R_range (l : list R) : forall i best bi,
  @argmax_go RNum l i best bi = bi \/ (i <= @argmax_go RNum l i best bi)%nat.
Proof.
  induction l as [|x l IH]; intros i best bi; [left; reflexivity|].
  cbn [argmax_go isnan RNum leb]. destruct (negb (Rleb x best)).
  - right. destruct (IH (S i) x i) as [H|H]; lia.
  - destruct (IH (S i) best bi) as [H|H]; [left; exact H|right; lia].
Qed.
Lemma argmax_go_R_skip (l : list R) : forall i best bi k,
  (bi < i)%nat -> (k < length l)%nat -> nth k l 0 <= best -> @argmax_go RNum l i best bi <> (i + k)%nat.
Proof.
  induction l as [|x l IH]; intros i best bi k Hbi Hk Hv; [cbn in Hk; lia|].
  cbn [argmax_go isnan RNum leb]. destruct k as [|k].
  - cbn [nth] in Hv. apply Rleb_true in Hv. rewrite Hv. cbn [negb].
    destruct (argmax_go_R_range l (S i) best bi) as [H|H]; lia.
  - cbn [nth] in Hv. cbn [length] in Hk. destruct (Rleb x best) eqn:Hx; cbn [negb].
    + replace (i + S k)%nat with (S i + k)%nat by lia. apply IH; [lia|lia|exact Hv].
    + apply Rleb_false in Hx. replace (i + S k)%nat with (S i + k)%nat by lia. apply IH; [lia|lia|lra].
Qed.

(* C03's clause fails on the legacy model: an exact two-slope elbow whose corner menger.knee does not return *)
Theorem menger_knee_legacy_refuted :
  exists (pts : list (R * R)) (c : nat) (m1 m2 : R),
    elbow pts c m1 m2 /\ @menger_knee_legacy RNum pts <> c.
Proof.
  exists elbow_example, 3%nat, (-2), (-1 / 4). split; [exact elbow_example_ok|].
  unfold menger_knee_legacy, menger_array_legacy, argmax.
  change (@zero RNum) with 0.
  apply (argmax_go_R_skip _ 1 0 0 2); [lia|cbn; lia|].
  change (@menger_curvature_legacy RNum (4, 3) (3, 5) (6, 5 / 2) <= 0).
  left. exact menger_legacy_corner_negative.
Qed.
Print Assumptions menger_knee_legacy_refuted.

(* C17's clauses fail on the legacy formula: not positive on a proper triangle, not 0 on a collinear triple,
   not symmetric *)
Theorem menger_curvature_legacy_refuted :
  (exists f g h : R * R, cross3 f g h <> 0 /\ ~ 0 < @menger_curvature_legacy RNum f g h) /\
  (exists f g h : R * R, cross3 f g h = 0 /\ @menger_curvature_legacy RNum f g h <> 0) /\
  (exists f g h : R * R, @menger_curvature_legacy RNum f g h <> @menger_curvature_legacy RNum g f h).
Proof.
  split; [|split].
  - exists (4, 3), (3, 5), (6, 5 / 2). split; [unfold cross3; cbn; lra|].
    pose proof menger_legacy_corner_negative. lra.
  - exists (1, 1), (0, 0), (2, 2). split; [unfold cross3; cbn; lra|].
    rewrite menger_legacy_R.
    replace ((0 - 1) * (2 - 0)) with (-2) by lra. rewrite Rabs_left by lra.
    replace ((0 - 1) * (0 - 1) + (0 - 1) * (0 - 1)) with 2 by lra.
    replace ((2 - 0) * (2 - 0) + (2 - 0) * (2 - 0)) with 8 by lra.
    replace ((1 - 2) * (1 - 2) + (1 - 2) * (1 - 2)) with 2 by lra.
    rewrite !Rabs_pos_eq by lra.
    assert (Hs : 0 < R_sqrt.sqrt (2 * 8 * 2)) by (apply sqrt_lt_R0; lra).
    set (s := R_sqrt.sqrt (2 * 8 * 2)) in *.
    intros H. apply (Rmult_eq_compat_r s) in H. unfold Rdiv in H.
    rewrite Rmult_assoc, Rinv_l in H by lra. lra.
  - exists (0, 0), (1, 1), (2, 0). rewrite !menger_legacy_R.
    replace ((1 - 0) * (0 - 1)) with (-1) by lra. replace ((0 - 1) * (0 - 0)) with 0 by lra.
    rewrite Rabs_left by lra. rewrite Rabs_R0.
    replace ((1 - 0) * (1 - 0) + (1 - 0) * (1 - 0)) with 2 by lra.
    replace ((2 - 1) * (2 - 1) + (0 - 1) * (0 - 1)) with 2 by lra.
    replace ((0 - 2) * (0 - 2) + (0 - 0) * (0 - 0)) with 4 by lra.
    replace ((0 - 1) * (0 - 1) + (0 - 1) * (0 - 1)) with 2 by lra.
    replace ((2 - 0) * (2 - 0) + (0 - 0) * (0 - 0)) with 4 by lra.
    replace ((1 - 2) * (1 - 2) + (1 - 0) * (1 - 0)) with 2 by lra.
    rewrite !Rabs_pos_eq by lra.
    replace (2 * 4 * 2) with (2 * 2 * 4) by lra.
    assert (Hs : 0 < R_sqrt.sqrt (2 * 2 * 4)) by (apply sqrt_lt_R0; lra).
    set (s := R_sqrt.sqrt (2 * 2 * 4)) in *.
    intros H. apply (Rmult_eq_compat_r s) in H. unfold Rdiv in H.
    rewrite !Rmult_assoc, Rinv_l in H by lra. lra.
Qed.
Print Assumptions menger_curvature_legacy_refuted.

(* the CURRENT model satisfies the clauses on the same inputs (instances of the general theorems behind C03 / C17) *)
Example menger_knee_current_elbow : @menger_knee RNum elbow_example = 3%nat.
Proof. exact (menger_elbow elbow_example 3 (-2) (-1 / 4) elbow_example_ok). Qed.
Example menger_array_current_corner : 0 < @nth R 3 (@menger_array RNum elbow_example) 0.
Proof. exact (menger_array_corner elbow_example 3 (-2) (-1 / 4) elbow_example_ok). Qed.
