(* Legacy/RdpLegacy.v — the PRE-FIX threshold RDP (pinned commit d561702, rdp.py:165-168: index = np.argmax(d) over
   the whole distance array) and a machine-checked witness that it does not terminate: documentation of defect D1
   (repaired in /repo by eaa620d); not used by any check.  The witness is the replay
   rdp.rdp([[1,2],[4,1],[7,0]]) with the library's own values: distances [0, 0, 0], smape cost 0.5441..., t = 0.01. *)
From Coq Require Import List Arith Bool PrimFloat.
From Knee Require Import Num NumFloat NpList Model.Mapping Model.Rdp.
Import ListNotations.

Section Legacy.
  Context {N : Num}.
  Variable dist : nat -> nat -> list (T N).
  Variable segcost : nat -> nat -> T N.
  Variable r2 : bool.
  Variable t : T N.
  (* py (pinned): rdp.py:166  index = np.argmax(d) *)
  Definition split_legacy (d : list (T N)) : nat := argmax d.
  Fixpoint rdp_loop_legacy (fuel : nat) (stack acc : list (nat * nat)) : option (list (nat * nat)) :=
    match fuel with
    | O => None
    | S f =>
        match stack with
        | [] => Some (rev acc)
        | (l, r) :: st =>
            if curved r2 t (cost_of segcost r2 l r) then
              let i := split_legacy (dist l r) in
              rdp_loop_legacy f ((l, l + i + 1) :: (l + i, r) :: st) acc
            else rdp_loop_legacy f st ((l, r) :: acc)
        end
    end.
End Legacy.

Definition d1_dist (l r : nat) : list float := [0%float; 0%float; 0%float].
Definition d1_cost (l r : nat) : float := 0x1.169938cf39ad5p-1%float.
Definition d1_t : float := 0x1.47ae147ae147bp-7%float.    (* 0.01 *)

Lemma d1_two_steps f acc :
  @rdp_loop_legacy FloatNum d1_dist d1_cost false d1_t (S (S f)) [(0, 3)] acc =
  @rdp_loop_legacy FloatNum d1_dist d1_cost false d1_t f [(0, 3)] ((0, 1) :: acc).
Proof. reflexivity. Qed.

(* the same range is pushed again for ever: out of fuel for EVERY fuel, although the threshold is in the property's
   domain and the distance array has the right shape *)
Theorem rdp_legacy_diverges :
  @curved FloatNum false d1_t (@trivial_cost FloatNum false) = false /\
  (forall l r, length (d1_dist l r) = 3) /\
  forall fuel acc, @rdp_loop_legacy FloatNum d1_dist d1_cost false d1_t fuel [(0, 3)] acc = None.
Proof.
  split; [reflexivity|]. split; [reflexivity|].
  assert (H : forall fuel acc,
            @rdp_loop_legacy FloatNum d1_dist d1_cost false d1_t fuel [(0, 3)] acc = None /\
            @rdp_loop_legacy FloatNum d1_dist d1_cost false d1_t (S fuel) [(0, 3)] acc = None).
  { induction fuel as [|f IH]; intros acc.
    - split; reflexivity.
    - split; [apply IH|]. rewrite d1_two_steps. apply IH. }
  intros fuel acc. apply H.
Qed.
Print Assumptions rdp_legacy_diverges.
