(* Legacy/RdpFixedLegacy.v — the PRE-FIX fixed-size / global RDP of the pinned commit d561702 (rdp.py:298-334, 415-458,
   353, 481, 522) and machine-checked witnesses of two defects; documentation of findings, not used by any check.

   D2  (rdp.py:310 and 425: `index = np.argmax(d)` over the WHOLE distance array; repaired by /repo 4ef3e82:
        `np.argmax(d[1:-1]) + 1`).  Falsified C01 / C05 / C06 "the returned index list is strictly increasing, starts at 0
        and ends at n-1" (WFb).  Witness: the collinear curve [[0,0],[1,9],[3,27]]: far-end rounding noise 2^-51 of
        lf.shortest_distance_points is >= eps = 2^-52, so the zero-distance guard does not fire and argmax = the last index.
   D3  (rdp.py:353, 481, 522: `stack = [(0, 0, len(points))]` also for a two-point curve; repaired by /repo a76ee63:
        `... if len(points) > 2 else []`).  Falsified C01 (WFb) and C05 "exactly min(max(k,2), n) indices".
        Witness: any two-point curve, length = 3.

   Observed on the real pre-fix code (PYTHONPATH = worktree of d561702, numpy 2):
     lf.shortest_distance_points([[0,0],[1,9],[3,27]], P[0], P[-1])  -> [0x0.0p+0, 0x0.0p+0, 0x1.0p-51]
     rdp.rdp_fixed([[0,0],[1,9],[3,27]], 3)   (all three Order values) -> ([0, 2, 2], [[0, 1], [2, -1]])
     rdp.mp_grdp([[0,0],[1,9],[3,27]], t=0.01, min_points=3)           -> ([0, 2, 2], [[0, 1], [2, -1]])
     rdp.min_point_rdp([[0,0],[1,9],[3,27]], t=[0.01], min_points=3)   -> ([0, 2, 2], [[0, 1], [2, -1]])
     rdp.rdp_fixed([[0,1],[1,2]], 3)          (all three Order values) -> ([0, 1, 1], [[0, 0], [1, -1]])
     rdp.mp_grdp([[0,1],[1,2]], t=0.01, min_points=3)                  -> ([0, 1, 1], [[0, 0], [1, -1]])
   On the repaired /repo the same calls give [0,1,2] and [0,1].

   The model is Model/RdpFixed.v with the two differing lines made parameters: `split` (the index choice) and `seed_all`
   (whether the stack is seeded unconditionally).  `body_gen_current` / `_rdp_fixed_gen_current` show that the
   parametrised loop instantiated with the CURRENT choices is the current model definitionally. *)
From Coq Require Import List Arith Bool PrimFloat.
From Knee Require Import Num NumFloat NpList Model.Mapping Model.RdpFixed.
Import ListNotations.
Local Open Scope num_scope.

Section Gen.
  Context {N : Num}.
  Variable n : nat.
  Variable eps : T N.
  Variable dist : nat -> nat -> list (T N).
  Variable prio : nat -> nat -> T N.
  Variable gcost : list nat -> T N.
  Variable split : list (T N) -> nat.          (* the index choice of rdp.py:307-310 / 422-425 *)
  Variable seed_all : bool.                    (* true: rdp.py:353 as pinned; false: as repaired by a76ee63 *)

  (* py (pinned): rdp.py:307-310   if np.all(d < eps): index = int(len(d)/2)  else: index = np.argmax(d) *)
  Definition split_legacy (d : list (T N)) : nat :=
    if all_lt d eps then length d / 2 else argmax d.

  (* Model/RdpFixed.v `body`, with `split` for `split_guarded eps` *)
  Definition body_gen (stack : list (@entry N)) : option (nat * list (@entry N)) :=
    match pop stack with
    | None => None
    | Some ((_, (lft, rgt)), st) =>
        let d := dist lft rgt in
        let index := split d in
        let len := rgt - lft in
        let new1 := if 2 <? (lft + index + 1) - lft
                    then [(prio lft (lft + index + 1), (lft, lft + index + 1))] else [] in
        let new2 := if 2 <? (lft + len) - (lft + index)
                    then [(prio (lft + index) (lft + len), (lft + index, lft + len))] else [] in
        Some (lft + index, sort_by ele (st ++ new1 ++ new2))
    end.

  Fixpoint _rdp_fixed_gen (fuel length : nat) (stack : list (@entry N)) (reduced : list nat) : option (list nat) :=
    match fuel with
    | O => None
    | S f =>
        if (0 <? length) && nonempty stack then
          match body_gen stack with
          | None => None
          | Some (g, stack') => _rdp_fixed_gen f (length - 1) stack' (reduced ++ [g])
          end
        else Some (sort_nat reduced)
    end.

  (* py (pinned): rdp.py:353  stack = [(0, 0, len(points))] *)
  Definition stack0_gen : list (@entry N) :=
    if seed_all then [(zero, (0, n))] else if 2 <? n then [(zero, (0, n))] else [].

  (* only the index list: the pinned compute_removed_points returns a NEGATIVE count for the duplicated index
     ([2, -1] above), which the nat-valued table of Model/Mapping.v does not represent *)
  Definition rdp_fixed_gen (fuel k : nat) : option (list nat) :=
    _rdp_fixed_gen fuel (k - 2) stack0_gen (reduced0 n).

  Fixpoint _grdp_loop_gen (is_r2 : bool) (t : T N) (fuel : nat) (cv : bool) (stack : list (@entry N)) (reduced : list nat)
    : option (list nat * list (@entry N)) :=
    match fuel with
    | O => None
    | S f =>
        if cv && nonempty stack then
          match body_gen stack with
          | None => None
          | Some (g, stack') =>
              let reduced' := sort_nat (reduced ++ [g]) in
              _grdp_loop_gen is_r2 t f (curved is_r2 t (gcost reduced')) stack' reduced'
          end
        else Some (reduced, stack)
    end.
  Definition _grdp_gen (is_r2 : bool) (t : T N) (fuel : nat) (stack : list (@entry N)) (reduced : list nat) :=
    _grdp_loop_gen is_r2 t fuel (curved is_r2 t (gcost reduced)) stack reduced.

  Definition mp_grdp_gen (is_r2 : bool) (t : T N) (fuel min_points : nat) : option (list nat) :=
    match _grdp_gen is_r2 t fuel stack0_gen (reduced0 n) with
    | None => None
    | Some (red, stack) =>
        if min_points <=? length red then Some red
        else _rdp_fixed_gen fuel (min_points - length red) stack red
    end.
End Gen.

(* the parametrisation is faithful: with the current choices it IS the current model *)
Lemma body_gen_current {N : Num} eps dist prio st :
  @body_gen N dist prio (split_guarded eps) st = body eps dist prio st.
Proof. reflexivity. Qed.
Lemma _rdp_fixed_gen_current {N : Num} eps dist prio fuel :
  forall len st red, @_rdp_fixed_gen N dist prio (split_guarded eps) fuel len st red = _rdp_fixed eps dist prio fuel len st red.
Proof.
  induction fuel as [|f IH]; intros; [reflexivity|]. cbn [_rdp_fixed_gen _rdp_fixed].
  rewrite body_gen_current. destruct ((0 <? len) && nonempty st); [|reflexivity].
  destruct (body eps dist prio st) as [[g st']|]; [apply IH|reflexivity].
Qed.
Lemma stack0_gen_current {N : Num} n : @stack0_gen N n false = stack0 n.
Proof. reflexivity. Qed.
Print Assumptions _rdp_fixed_gen_current.

(* the pinned code: whole-array argmax, unconditional seed *)
Definition rdp_fixed_legacy {N : Num} n eps dist prio :=
  @rdp_fixed_gen N n dist prio (split_legacy eps) true.
Definition mp_grdp_legacy {N : Num} n eps dist prio gcost :=
  @mp_grdp_gen N n dist prio gcost (split_legacy eps) true.
(* between 4ef3e82 and a76ee63: interior argmax, unconditional seed *)
Definition rdp_fixed_d3 {N : Num} n eps dist prio :=
  @rdp_fixed_gen N n dist prio (split_guarded eps) true.

(* ------------------------------------------------------------------ D2 *)
Definition f_eps : float := 0x1.0p-52%float.                       (* np.finfo(float).eps *)
(* the library's own distances on [[0,0],[1,9],[3,27]] (observed, see header); only (0,3) is ever asked *)
Definition d2_dist (l r : nat) : list float := [0%float; 0%float; 0x1.0p-51%float].
Definition d2_prio (l r : nat) : float := 0%float.                  (* never consulted: no child is pushed *)
Definition d2_gcost (S : list nat) : float := 0%float.              (* compute_global_cost(P, [0,2], smape) = 0.0 (observed) *)
Definition d2_t : float := 0x1.47ae147ae147bp-7%float.              (* 0.01 *)

(* the oracle has the right shape, the input is in the domain (n = 3 >= 2, k = 3), and the pre-fix model returns the
   observed [0,2,2], which is not a well-formed reduction (duplicated index) *)
Theorem rdp_fixed_legacy_refuted :
  exists n (dist : nat -> nat -> list float) prio fuel k,
    2 <= n /\ (forall l r, length (dist l r) = 3) /\ n <= fuel /\
    exists red, @rdp_fixed_legacy FloatNum n f_eps dist prio fuel k = Some red /\ WFb n red = false.
Proof.
  exists 3, d2_dist, d2_prio, 3, 3. split; [auto|]. split; [reflexivity|]. split; [auto|].
  exists [0; 2; 2]. split; vm_compute; reflexivity.
Qed.
Print Assumptions rdp_fixed_legacy_refuted.

Example rdp_fixed_legacy_d2_output :
  @rdp_fixed_legacy FloatNum 3 f_eps d2_dist d2_prio 3 3 = Some [0; 2; 2].
Proof. vm_compute. reflexivity. Qed.

(* the same through mp_grdp (rdp.py:425 and the hand-over to _rdp_fixed): cost 0 < t, so _grdp adds nothing and
   _rdp_fixed is asked for the third point *)
Theorem mp_grdp_legacy_refuted :
  exists n (dist : nat -> nat -> list float) prio gcost t fuel mp,
    2 <= n /\ (forall l r, length (dist l r) = 3) /\ n <= fuel /\
    exists red, @mp_grdp_legacy FloatNum n f_eps dist prio gcost false t fuel mp = Some red /\ WFb n red = false.
Proof.
  exists 3, d2_dist, d2_prio, d2_gcost, d2_t, 3, 3. split; [auto|]. split; [reflexivity|]. split; [auto|].
  exists [0; 2; 2]. split; vm_compute; reflexivity.
Qed.
Print Assumptions mp_grdp_legacy_refuted.

(* the CURRENT model on the same input: [0,1,2], well-formed, exact size *)
Example rdp_fixed_current_d2 :
  exists red, @rdp_fixed FloatNum 3 f_eps d2_dist d2_prio 3 3 = Some (red, rows red) /\
              red = [0; 1; 2] /\ WFb 3 red = true /\ length red = Nat.min (Nat.max 3 2) 3.
Proof. exists [0; 1; 2]. repeat split; vm_compute; reflexivity. Qed.
Example mp_grdp_current_d2 :
  @mp_grdp FloatNum 3 f_eps d2_dist d2_prio d2_gcost false d2_t 3 3 = Some ([0; 1; 2], rows [0; 1; 2]).
Proof. vm_compute. reflexivity. Qed.

(* ------------------------------------------------------------------ D3 *)
(* two points: shortest_distance_points returns [0, 0] (observed); the guard fires, index = int(2/2) = 1 *)
Definition d3_dist (l r : nat) : list float := [0%float; 0%float].

(* a two-point curve with length = 3: the seeded segment (0,2) has no interior, index 1 is appended again.
   Both the pinned code and the code after the D2 repair alone (interior argmax) do it. *)
Theorem rdp_fixed_two_point_refuted :
  exists n (dist : nat -> nat -> list float) prio fuel k,
    2 <= n /\ (forall l r, length (dist l r) = 2) /\ n <= fuel /\
    (exists red, @rdp_fixed_legacy FloatNum n f_eps dist prio fuel k = Some red /\
                 WFb n red = false /\ length red <> Nat.min (Nat.max k 2) n) /\
    (exists red, @rdp_fixed_d3 FloatNum n f_eps dist prio fuel k = Some red /\
                 WFb n red = false /\ length red <> Nat.min (Nat.max k 2) n).
Proof.
  exists 2, d3_dist, d2_prio, 2, 3. split; [auto|]. split; [reflexivity|]. split; [auto|].
  split; exists [0; 1; 1]; (split; [vm_compute; reflexivity|]); (split; [vm_compute; reflexivity|]);
    vm_compute; discriminate.
Qed.
Print Assumptions rdp_fixed_two_point_refuted.

Example rdp_fixed_legacy_d3_output :
  @rdp_fixed_legacy FloatNum 2 f_eps d3_dist d2_prio 2 3 = Some [0; 1; 1].
Proof. vm_compute. reflexivity. Qed.

Theorem mp_grdp_two_point_refuted :
  exists red, @mp_grdp_legacy FloatNum 2 f_eps d3_dist d2_prio d2_gcost false d2_t 2 3 = Some red /\ WFb 2 red = false.
Proof. exists [0; 1; 1]. split; vm_compute; reflexivity. Qed.
Print Assumptions mp_grdp_two_point_refuted.

(* the CURRENT model: the stack is not seeded, the two end points are returned *)
Example rdp_fixed_current_d3 :
  exists red, @rdp_fixed FloatNum 2 f_eps d3_dist d2_prio 2 3 = Some (red, rows red) /\
              red = [0; 1] /\ WFb 2 red = true /\ length red = Nat.min (Nat.max 3 2) 2.
Proof. exists [0; 1]. repeat split; vm_compute; reflexivity. Qed.
Example mp_grdp_current_d3 :
  @mp_grdp FloatNum 2 f_eps d3_dist d2_prio d2_gcost false d2_t 2 3 = Some ([0; 1], rows [0; 1]).
Proof. vm_compute. reflexivity. Qed.

(* ------------------------------------------------------------------ the split rule itself (C05_split_interior) *)
(* the pre-fix index choice can be an END point of the segment; the repaired one never is, whatever the distances
   (Proofs/RdpFixedFacts.split_interior, the theorem behind C05_split_interior) *)
Theorem split_legacy_refuted :
  exists d : list float, 3 <= length d /\ @split_legacy FloatNum f_eps d = length d - 1.
Proof. exists (d2_dist 0 3). split; [vm_compute; auto|vm_compute; reflexivity]. Qed.
Print Assumptions split_legacy_refuted.
Example split_guarded_current_d2 :
  @split_guarded FloatNum f_eps (d2_dist 0 3) = 1 /\ 1 <= @split_guarded FloatNum f_eps (d2_dist 0 3) <= length (d2_dist 0 3) - 2.
Proof. split; [vm_compute; reflexivity|vm_compute; auto]. Qed.
