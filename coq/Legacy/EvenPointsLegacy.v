(* Legacy/EvenPointsLegacy.v — the PRE-FIX postprocessing.add_points_even_knees and machine-checked witnesses of two
   defects; documentation of findings, not used by any check.

   D10  (pinned commit d561702, postprocessing.py:434: `extremes_idx = [0, len(points)]`; repaired by /repo 995b200:
        `[0, len(points)-1]`).  With extremes=True the index len(points) reaches filter_worst_knees, which reads
        points[len(points)][1]: IndexError — on EVERY input on which the earlier steps complete
        (`even_knees_legacy_extremes_always_raises`).
   C14-empty  (postprocessing.py:399 `right = knees[0]`, 417 `left = knees[-1]`; repaired by /repo 1b3ec6b:
        `... if len(knees) > 0 else len(points)-1`).  An empty knee array raised IndexError.
   Property falsified by both: C14 "add_points_even_knees returns the height-filtered sorted union of the knees, the evenly
   spaced candidates of every qualifying gap and (if requested) both end points; every returned index is a valid curve
   index" (an exception is not such an output; C14_even_knees_spec has NO hypothesis on the knees).

   Observed on the real pre-fix code (PYTHONPATH = worktree of d561702),
   P = zip([0..8], [9,7,5,4,3,2.5,2,1.5,1]), tx = ty = 0.125:
     add_points_even_knees(P, [4], 0.125, 0.125, extremes=False) -> [2 4 6 8]
     add_points_even_knees(P, [4], 0.125, 0.125, extremes=True)  -> IndexError: index 9 is out of bounds for axis 0 with size 9
     add_points_even_knees(P, [],  0.125, 0.125, extremes=False) -> IndexError: index 0 is out of bounds for axis 0 with size 0
   On the repaired /repo: [2 4 6 8], [0 2 4 6 8], [2 4 6 8].

   The model is Model/EvenPoints.v with the differing lines made parameters (`last_idx`: the second extreme index;
   `empty_ok`: whether an empty knee array is accepted) and with filter_worst_knees reading points[k][1] through a
   bounds-CHECKED look-up (None = IndexError), which the current model does not need (C14_even_knees_valid). *)
From Coq Require Import List Arith Bool ZArith PrimFloat Lia.
From Knee Require Import Num NumFloat NpList Model.Mapping Model.EvenPoints.
Import ListNotations.
Local Open Scope num_scope.

Section EvenLegacy.
  Context {N : Num}.
  Variable xs ys : list (T N).
  Variable tx ty : T N.
  Variable last_idx : nat.        (* pinned: len(points);  repaired (995b200): len(points) - 1 *)
  Variable empty_ok : bool.       (* pinned: false (knees[0] raises);  repaired (1b3ec6b): true *)

  (* points[k][1] with NumPy's bounds check (non-negative k) *)
  Definition yat_chk (k : nat) : option (T N) := nth_error ys k.

  (* py (pinned): postprocessing.py:98-127 filter_worst_knees.  len(knees) <= 1: returned as is, nothing is read *)
  Fixpoint rmf_go_chk (hmin : T N) (ks : list nat) : option (list nat) :=
    match ks with
    | [] => Some []
    | k :: ks' =>
        match yat_chk k with
        | None => None
        | Some h => if h <=?! hmin then option_map (cons k) (rmf_go_chk h ks') else rmf_go_chk hmin ks'
        end
    end.
  Definition rmf_chk (ks : list nat) : option (list nat) :=
    match ks with
    | [] => Some []
    | [k] => Some [k]
    | k :: ks' => match yat_chk k with None => None | Some h => option_map (cons k) (rmf_go_chk h ks') end
    end.

  (* py (pinned): postprocessing.py:433-447 *)
  Definition finish_gen (knees new_knees : list nat) (extremes : bool) : option (list nat) :=
    rmf_chk (np_unique (knees ++ new_knees ++ (if extremes then [0; last_idx] else []))).

  (* py (pinned): postprocessing.py:367-447.  knees[0] / knees[-1] of an empty array: IndexError *)
  Definition add_points_even_knees_gen (knees : list nat) (extremes : bool) : option (list nat) :=
    let nl := length xs - 1 in
    match knees, empty_ok with
    | [], false => None
    | _, _ =>
        let k0 := hd nl knees in
        let kl := last knees nl in
        match qualifies xs ys tx ty 0 k0, between xs ys tx ty knees, qualifies xs ys tx ty kl nl with
        | Some q0, Some mid, Some q1 =>
            match gaps_loop xs tx ((if q0 then [(0, k0)] else []) ++ mid ++ (if q1 then [(kl, nl)] else [])) with
            | None => None
            | Some new_knees => finish_gen knees new_knees extremes
            end
        | _, _, _ => None
        end
    end.

  (* ---- whenever every index is a valid curve index the checked filter is the current (unchecked) one ---- *)
  Lemma yat_chk_some k : k < length ys -> yat_chk k = Some (yat ys k).
  Proof. intros H. unfold yat_chk, yat. apply nth_error_nth'. exact H. Qed.
  Lemma rmf_go_chk_valid ks : forall h, Forall (fun k => k < length ys) ks -> rmf_go_chk h ks = Some (rmf_go ys h ks).
  Proof.
    induction ks as [|k ks IH]; intros h Hv; [reflexivity|]. inversion Hv; subst.
    cbn [rmf_go_chk rmf_go]. rewrite yat_chk_some by assumption.
    destruct (yat ys k <=?! h); rewrite IH by assumption; reflexivity.
  Qed.
  Lemma rmf_chk_valid ks : Forall (fun k => k < length ys) ks -> rmf_chk ks = Some (rmf ys ks).
  Proof.
    intros Hv. destruct ks as [|k ks]; [reflexivity|]. inversion Hv; subst.
    destruct ks as [|k' ks]; [reflexivity|].
    cbn [rmf_chk rmf]. rewrite yat_chk_some by assumption. rewrite rmf_go_chk_valid by assumption. reflexivity.
  Qed.

  (* ---- an index >= len(points) anywhere in a list of two or more entries makes the filter raise ---- *)
  Lemma rmf_go_chk_oob ks : forall h, Exists (fun k => length ys <= k) ks -> rmf_go_chk h ks = None.
  Proof.
    induction ks as [|k ks IH]; intros h He; [inversion He|]. cbn [rmf_go_chk]. unfold yat_chk.
    destruct (nth_error ys k) as [v|] eqn:Hk; [|reflexivity].
    assert (Hlt : k < length ys) by (apply nth_error_Some; congruence).
    inversion He as [? ? H0|? ? H0]; subst; [lia|].
    destruct (v <=?! h); rewrite IH by assumption; reflexivity.
  Qed.
  Lemma rmf_chk_oob ks : 2 <= length ks -> Exists (fun k => length ys <= k) ks -> rmf_chk ks = None.
  Proof.
    intros Hl He. destruct ks as [|k ks]; [cbn in Hl; lia|]. destruct ks as [|k' ks]; [cbn in Hl; lia|].
    cbn [rmf_chk]. unfold yat_chk. destruct (nth_error ys k) as [v|] eqn:Hk; [|reflexivity].
    assert (Hlt : k < length ys) by (apply nth_error_Some; congruence).
    inversion He as [? ? H0|? ? H0]; subst; [lia|]. rewrite rmf_go_chk_oob by assumption. reflexivity.
  Qed.
End EvenLegacy.

(* the pinned code, and the code between the two repairs *)
Definition add_points_even_knees_legacy {N : Num} (xs ys : list (T N)) tx ty :=
  add_points_even_knees_gen xs ys tx ty (length xs) false.
Definition add_points_even_knees_mid {N : Num} (xs ys : list (T N)) tx ty :=
  add_points_even_knees_gen xs ys tx ty (length xs - 1) false.

(* the witness curve (Props/C14.v ex_xs, ex_ys) *)
Definition l_xs : list (T FloatNum) := [0; 1; 2; 3; 4; 5; 6; 7; 8]%float.
Definition l_ys : list (T FloatNum) := [9; 7; 5; 4; 3; 2.5; 2; 1.5; 1]%float.

(* D10: a valid single knee, extremes = True: the pre-fix model raises *)
Theorem even_knees_legacy_refuted :
  exists (xs ys : list (T FloatNum)) tx ty knees,
    length xs = length ys /\ Forall (fun k => k < length xs) knees /\ knees <> [] /\
    add_points_even_knees_legacy xs ys tx ty knees true = None /\
    (* the same call without the extremes completes, so the failure is the extreme index *)
    add_points_even_knees_legacy xs ys tx ty knees false = Some [2; 4; 6; 8].
Proof.
  exists l_xs, l_ys, 0.125%float, 0.125%float, [4].
  split; [reflexivity|]. split; [repeat constructor|]. split; [discriminate|]. split; vm_compute; reflexivity.
Qed.
Print Assumptions even_knees_legacy_refuted.

(* C14-empty: the empty knee set raises, before 1b3ec6b (with or without the D10 repair) *)
Theorem even_knees_empty_refuted :
  exists (xs ys : list (T FloatNum)) tx ty ext,
    length xs = length ys /\
    add_points_even_knees_legacy xs ys tx ty [] ext = None /\ add_points_even_knees_mid xs ys tx ty [] ext = None.
Proof. exists l_xs, l_ys, 0.125%float, 0.125%float, false. repeat split. Qed.
Print Assumptions even_knees_empty_refuted.
(* ... for every curve and every arithmetic *)
Theorem even_knees_empty_always_raises (N : Num) (xs ys : list (T N)) tx ty li ext :
  add_points_even_knees_gen xs ys tx ty li false [] ext = None.
Proof. reflexivity. Qed.
Print Assumptions even_knees_empty_always_raises.

(* D10 for ALL inputs: whatever the curve, thresholds and (sorted or not) knees, the pre-fix extremes=True call never
   returns a value: the list handed to filter_worst_knees has >= 2 distinct entries (0 and len(points) — for a non-empty
   curve) and contains len(points) *)
Lemma In_sort_nat x l : In x (sort_nat l) <-> In x l.
Proof.
  unfold sort_nat.
  assert (G : forall l acc, In x (fold_left (fun acc y => insert_nat y acc) l acc) <-> In x l \/ In x acc).
  { assert (Hi : forall y acc, In x (insert_nat y acc) <-> x = y \/ In x acc).
    { intros y acc. induction acc as [|a acc IH]; cbn [insert_nat]; [cbn; intuition|].
      destruct (a <=? y); cbn [In]; [rewrite IH|]; intuition. }
    clear l. induction l as [|y l IH]; intros acc; cbn [fold_left]; [cbn; intuition|].
    rewrite IH, Hi. cbn [In]. intuition. }
  rewrite G. cbn. intuition.
Qed.
Lemma In_dedup_sorted x l : In x (dedup_sorted l) <-> In x l.
Proof.
  induction l as [|a l IH]; [reflexivity|]. destruct l as [|b l]; [reflexivity|].
  cbn [dedup_sorted]. destruct (a =? b) eqn:E.
  - apply Nat.eqb_eq in E. subst b. rewrite IH. cbn [In]. intuition.
  - cbn [In]. rewrite IH. cbn [In]. intuition.
Qed.
Lemma In_np_unique x l : In x (np_unique l) <-> In x l.
Proof. unfold np_unique. rewrite In_dedup_sorted, In_sort_nat. reflexivity. Qed.
Lemma In_two_length (l : list nat) a b : In a l -> In b l -> a <> b -> 2 <= length l.
Proof.
  intros Ha Hb Hab. destruct l as [|x l]; [inversion Ha|]. destruct l as [|y l]; [|cbn; lia].
  cbn in Ha, Hb. intuition congruence.
Qed.

Theorem even_knees_legacy_extremes_always_raises (N : Num) (xs ys : list (T N)) tx ty knees :
  length xs = length ys -> 1 <= length xs ->
  add_points_even_knees_legacy xs ys tx ty knees true = None.
Proof.
  intros Hlen Hn. unfold add_points_even_knees_legacy, add_points_even_knees_gen.
  destruct knees as [|k0 ks]; [reflexivity|]. cbv match.
  destruct (qualifies xs ys tx ty 0 _) as [q0|]; [|reflexivity].
  destruct (between xs ys tx ty _) as [mid|]; [|reflexivity].
  destruct (qualifies xs ys tx ty _ _) as [q1|]; [|reflexivity].
  destruct (gaps_loop xs tx _) as [nk|]; [|reflexivity].
  unfold finish_gen. apply rmf_chk_oob.
  - apply (In_two_length _ 0 (length xs)); [| |lia]; apply In_np_unique; rewrite !in_app_iff; right; right; cbn; auto.
  - apply Exists_exists. exists (length xs). split; [|lia].
    apply In_np_unique. rewrite !in_app_iff. right; right; cbn; auto.
Qed.
Print Assumptions even_knees_legacy_extremes_always_raises.

(* the CURRENT model on the same inputs: values, equal to the specification, all indices valid *)
Example even_knees_current_d10 :
  add_points_even_knees l_xs l_ys 0.125%float 0.125%float [4] true = Some [0; 2; 4; 6; 8] /\
  even_spec_knees l_xs l_ys 0.125%float 0.125%float [4] true = Some [0; 2; 4; 6; 8] /\
  forallb (fun k => k <? length l_xs) [0; 2; 4; 6; 8] = true.
Proof. vm_compute. repeat split; reflexivity. Qed.
Example even_knees_current_empty :
  add_points_even_knees l_xs l_ys 0.125%float 0.125%float [] false = Some [2; 4; 6; 8] /\
  even_spec_knees l_xs l_ys 0.125%float 0.125%float [] false = Some [2; 4; 6; 8] /\
  add_points_even_knees l_xs l_ys 0.125%float 0.125%float [] true = Some [0; 2; 4; 6; 8].
Proof. vm_compute. repeat split; reflexivity. Qed.
