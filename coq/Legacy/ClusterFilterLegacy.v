(* Legacy/ClusterFilterLegacy.v — the PRE-FIX hull ranking of postprocessing.filter_clusters (postprocessing.py:176-186
   before /repo 2264718: `length = x[b+1] - x[a-1]`, `left = points[a-1:j+1]`, `right = points[j:b+2]`, with a, b the first
   and last knee of a multi-member cluster holding >= 2 lower-hull indices) and machine-checked witnesses that it raises:
   documentation of defect D17 (repaired by 2264718: `lo, hi = max(a-1, 0), min(b+1, len(points)-1)`); not used by any check.
   Properties falsified: C08 (the end-to-end pipeline completes) and C12 "hull mode completes and returns a strictly
   increasing subset of the knees, at most one per cluster" (C12_fc_hull: `exists res, filter_clusters ... = Some res`).
   Two facets, both removed by the clamp:
     a = 0      : x[a-1] wraps to x[-1] (no error yet), but points[-1:j+1] is an EMPTY slice for every member j <= b <= n-2,
                  and lf.linear_fit_points(empty) reads x[0]: IndexError (linear_fit.py:66);
     b = n - 1  : x[b+1] = x[len(points)]: IndexError (postprocessing.py:180), before the loop.

   Observed on the real pre-fix code, P = [(0,10),(1,5),(2,2),(3,1),(4,0.5)] (convex: graham_scan_lower(P) = [0 1 2 3 4]),
   clustering = single_linkage, t = 2.0 (labels [0 0]), method = ClusterRanking.hull:
     worktree of d561702: every call -> NameError: name 'ccw' is not defined (D6 masks D17)
     worktree of 23fe66a (= 2264718~1):
        filter_clusters(P, [0,1], single_linkage, 2.0, hull) -> IndexError: index 0 is out of bounds for axis 0 with size 0
        filter_clusters(P, [3,4], single_linkage, 2.0, hull) -> IndexError: index 5 is out of bounds for axis 0 with size 5
        filter_clusters(P, [1,2], single_linkage, 2.0, hull) -> [2]           (no knee at either end: same as repaired)
        filter_clusters(P22, [0,4,5,11], single_linkage, 0.5, hull) -> IndexError (corpus/C08/menger_knee0_hull.json)
     repaired /repo: [0,1] -> [1];  [3,4] -> [3];  [1,2] -> [2];  corpus -> [5 11]
   The sums of shortest distances in `d17_sdist` are the library's own (np.sum(lf.shortest_distance_points(P[l:r+1], P[l], P[r]))).

   The model is Model/ClusterFilter.v with the one differing block: `hull_rankings_legacy` decides first whether the
   pre-fix indexing raises, and otherwise (1 <= a, b + 1 <= n - 1, where max/min are the identity) IS the current
   `hull_rankings` (`hull_rankings_legacy_inner`). *)
From Coq Require Import List Arith Bool ZArith PrimFloat Lia Permutation.
From Knee Require Import Num NumFloat NpList Model.ClusterFilter Proofs.ClusterFilterFacts.
Import ListNotations.
Local Open Scope num_scope.

Inductive hres {A} := HErr | HNone | HSome (r : A).
Arguments hres : clear implicits.

Section ClusterFilterLegacy.
  Context {N : Num}.
  Variable sorter : list (T N) -> list nat.
  Variable score : list nat -> list (T N).
  Variable hull : list nat.
  Variable sdist : nat -> nat -> T N.
  Variable xs : list (T N).

  (* py (pre 2264718): postprocessing.py:171-215 *)
  Definition hull_rankings_legacy (c : list nat) : hres (list (T N)) :=
    let n := length xs in
    let a := hd 0 c in
    let b := last c 0 in
    let hw := hull_within hull a b in
    match hw with
    | [] => HNone
    | [_] => HSome (map (fun j => if mem j hw then one else zero) c)
    | _ =>
        if n <=? b + 1 then HErr                                   (* length = x[b+1] - ...: IndexError *)
        else if (a =? 0) && existsb (fun j => mem j hw) c then HErr (* points[-1:j+1] empty; linear_fit_points: x[0] *)
        else match hull_rankings hull sdist xs c with               (* a-1 >= 0 or unused; b+1 <= n-1 *)
             | Some r => HSome r
             | None => HNone
             end
    end.

  Definition cluster_pick_legacy (m : fmode) (c : list nat) : pick :=
    match c with
    | [] => PErr
    | [k] => if is_hull m then (if mem k hull then PSome k else PNone) else PSome k
    | _ =>
        match (if is_hull m then hull_rankings_legacy c else HSome (score c)) with
        | HErr => PErr
        | HNone => PNone
        | HSome r => match nth_error c (pick_index sorter r) with Some k => PSome k | None => PErr end
        end
    end.

  Definition filter_clusters_legacy (m : fmode) (labels knees : list nat) : option (list nat) :=
    if length knees <=? 1 then Some knees
    else collect (map (fun i => cluster_pick_legacy m (members labels knees i)) (seq 0 (S (max_label labels)))).

  (* away from the two ends of the curve nothing changed *)
  Lemma hull_rankings_legacy_inner c :
    1 <= hd 0 c -> last c 0 + 1 < length xs ->
    hull_rankings_legacy c = match hull_rankings hull sdist xs c with Some r => HSome r | None => HNone end.
  Proof.
    intros Ha Hb. unfold hull_rankings_legacy, hull_rankings.
    destruct (hull_within hull (hd 0 c) (last c 0)) as [|h1 [|h2 hw]]; try reflexivity.
    replace (length xs <=? last c 0 + 1) with false by (symmetry; apply Nat.leb_gt; lia).
    replace (hd 0 c =? 0) with false by (symmetry; apply Nat.eqb_neq; lia). reflexivity.
  Qed.
End ClusterFilterLegacy.

(* ------------------------------------------------------------------ the witness *)
Definition d17_xs : list float := [0; 1; 2; 3; 4]%float.
Definition d17_hull : list nat := [0; 1; 2; 3; 4].
Definition d17_table : list ((nat * nat) * float) :=
  [((0%nat, 0%nat), 0x0.0p+0); ((0%nat, 1%nat), 0x0.0p+0); ((0%nat, 2%nat), 0x1.f0b6848d2af20p-3); ((0%nat, 3%nat), 0x1.43d1362484912p+0);
   ((0%nat, 4%nat), 0x1.80f3d9ed67aeap+1); ((1%nat, 1%nat), 0x0.0p+0); ((1%nat, 2%nat), 0x0.0p+0); ((1%nat, 3%nat), 0x1.c9f25c5bfeddap-2);
   ((1%nat, 4%nat), 0x1.63021484ae2bap+0); ((2%nat, 2%nat), 0x0.0p+0); ((2%nat, 3%nat), 0x0.0p+0); ((2%nat, 4%nat), 0x1.99999999999a4p-3);
   ((3%nat, 3%nat), 0x0.0p+0); ((3%nat, 4%nat), 0x0.0p+0); ((4%nat, 4%nat), 0x0.0p+0)]%float.
Definition d17_sdist (l r : nat) : float :=
  match find (fun e => (fst (fst e) =? l) && (snd (fst e) =? r)) d17_table with Some e => snd e | None => nan end.
Definition d17_score (c : list nat) : list float := [].         (* smooth_ranking: not used in hull mode *)

Definition fc_legacy := @filter_clusters_legacy FloatNum (@argsort_stable FloatNum) d17_score d17_hull d17_sdist d17_xs.
Definition fc_current := @filter_clusters FloatNum (@argsort_stable FloatNum) d17_score d17_hull d17_sdist d17_xs.

(* C12_fc_hull's hypotheses hold, its conclusion fails on the legacy model: a knee at index 0 / at index n-1 in a
   two-member cluster *)
Theorem filter_clusters_legacy_refuted :
  exists (sorter : list float -> list nat) score hull sdist (xs : list float) labels knees,
    (forall l, Permutation (sorter l) (seq 0 (length l))) /\
    labels_ok labels knees = true /\ strictly_increasing knees = true /\ 2 <= length knees /\
    forallb (fun k => k <? length xs) knees = true /\
    @filter_clusters_legacy FloatNum sorter score hull sdist xs MHull labels knees = None.
Proof.
  exists (@argsort_stable FloatNum), d17_score, d17_hull, d17_sdist, d17_xs, [0; 0], [0; 1].
  split; [exact (@argsort_stable_perm FloatNum)|]. repeat split; auto.
Qed.
Print Assumptions filter_clusters_legacy_refuted.

Example filter_clusters_legacy_observed :
  fc_legacy MHull [0; 0] [0; 1] = None /\            (* knee at index 0: IndexError observed *)
  fc_legacy MHull [0; 0] [3; 4] = None /\            (* knee at index n-1: IndexError observed *)
  fc_legacy MHull [0; 0] [1; 2] = Some [2] /\        (* observed [2] *)
  fc_legacy MHull [0; 0; 1; 1] [0; 1; 3; 4] = None.  (* observed (t = 0.5): IndexError *)
Proof. vm_compute. repeat split; reflexivity. Qed.

(* the CURRENT model on the same inputs: the values the repaired /repo returns, and C12's predicate holds *)
Example filter_clusters_current_d17 :
  fc_current MHull [0; 0] [0; 1] = Some [1] /\ hull_ok_b d17_hull [0; 0] [0; 1] [1] = true /\
  fc_current MHull [0; 0] [3; 4] = Some [3] /\ hull_ok_b d17_hull [0; 0] [3; 4] [3] = true /\
  fc_current MHull [0; 0] [1; 2] = Some [2] /\
  fc_current MHull [0; 0; 1; 1] [0; 1; 3; 4] = Some [1; 3] /\ hull_ok_b d17_hull [0; 0; 1; 1] [0; 1; 3; 4] [1; 3] = true.
Proof. vm_compute. repeat split; reflexivity. Qed.
