(* Legacy/LinearFitLegacy.v — two PRE-FIX functions of linear_fit.py and machine-checked witnesses of what they break;
   documentation of findings, not used by any check.

   D5   (pinned commit d561702, linear_fit.py:577:
          `return left + perpendicular_distance_points(points[left:right+1], points[left], points[right])`;
        repaired by /repo dbd169b, which drops `left +`).  Property falsified: C17 "perpendicular_distance_index returns the
        perpendicular distances of exactly that sub-range" (C17_perp_index_is_subrange): every entry is off by `left`.
   D16  (linear_fit.py:277: `return metrics.rmspe(y, y_hat)` — the caller's `eps` is dropped and metrics.rmspe uses its
        default 1e-16; repaired by /repo 23fe66a: `metrics.rmspe(y, y_hat, eps)`).  Property falsified: C16 "the linear-fit
        wrappers equal the same metrics applied to m*x + b" (C16_wrappers, rmspe clause, which includes the eps guard).

   Observed on the real pre-fix code, P = [(0,0),(1,0),(2,3),(3,4),(4,0)]:
     worktree of d561702 (numpy 2): lf.perpendicular_distance_index(P, 1, 4) -> ValueError (D4: np.cross on 2-vectors masks D5)
     worktree of 0b9bb25 (= dbd169b~1, D4 repaired, D5 not):
        lf.perpendicular_distance_index(P, 1, 4)               -> [1.0, 4.0, 5.0, 1.0]
        lf.perpendicular_distance_points(P[1:5], P[1], P[4])   -> [0.0, 3.0, 4.0, 0.0]
        lf.perpendicular_distance_index(P, 0, 4)               -> [0.0, 0.0, 3.0, 4.0, 0.0]   (left = 0 hides the defect)
     repaired /repo: lf.perpendicular_distance_index(P, 1, 4)  -> [0.0, 3.0, 4.0, 0.0]
   and for D16 (worktrees of d561702 and of fca05a8 = 23fe66a~1, same output):
        lf.rmspe_points([[0,0],[1,2],[2,1]], (0.5,0.3), 0.5)   -> 0x1.482f8590f6bc2p+51 = 2886751345948129.0
        metrics.rmspe([0,2,1], [0.5,0.8,1.1], 0.5)             -> 0x1.487c24d95d52ap-1  = 0.6415721431100441
        metrics.rmspe([0,2,1], [0.5,0.8,1.1])   (default eps)  -> 0x1.482f8590f6bc2p+51
     repaired /repo: lf.rmspe_points(..., 0.5)                 -> 0x1.487c24d95d52ap-1
   Both float models below reproduce these values bit for bit. *)
From Coq Require Import Reals ZArith List Arith Bool PrimFloat Lra Lia.
From Knee Require Import Num NumFloat NumR NpList Model.Metrics Model.LinearFit
     Proofs.MetricsFacts Proofs.LinearFitFacts.
Import ListNotations.
Local Open Scope num_scope.

Section LinearFitLegacy.
  Context {N : Num}.
  Notation pt := (@pt N).

  (* py (pinned): linear_fit.py:577   left + perpendicular_distance_points(...)   (NumPy broadcasts int + float array) *)
  Definition perpendicular_distance_index_legacy (P : list pt) (lft rgt : nat) : list (T N) :=
    map (fun d => ofN lft +! d) (perpendicular_distance_index P lft rgt).

  (* py (pinned): linear_fit.py:263-277   y_hat = linear_transform(x, coef); return metrics.rmspe(y, y_hat)
     `dflt` = the default of metrics.rmspe's eps parameter (1e-16) *)
  Variable dflt : T N.
  Definition lf_rmspe_legacy (x y : list (T N)) (c : coef) (eps : T N) : T N :=
    rmspe y (linear_transform x c) dflt.
  (* py (pinned): linear_fit.py:245-259 rmspe_points: x = points[:,0]; y = points[:,1]; return rmspe(x, y, coef, eps) *)
  Definition rmspe_points_legacy (P : list pt) (c : coef) (eps : T N) : T N := lf_rmspe_legacy (xs P) (ys P) c eps.
End LinearFitLegacy.

(* ================================================================== D5 *)
Definition d5_P : list (@pt FloatNum) := [(0, 0); (1, 0); (2, 3); (3, 4); (4, 0)]%float.

Example perp_index_legacy_observed :
  @perpendicular_distance_index_legacy FloatNum d5_P 1 4 = [1; 4; 5; 1]%float /\
  @perpendicular_distance_index_legacy FloatNum d5_P 0 4 = [0; 0; 3; 4; 0]%float.
Proof. split; vm_compute; reflexivity. Qed.

(* the clause of C17_perp_index_is_subrange fails: a valid sub-range and a position k whose entry is not
   perp_one(P[left], P[right], P[left+k]) — on binary64 (the observed run) ... *)
Theorem perp_index_legacy_refuted_float :
  exists (P : list (@pt FloatNum)) lft rgt k,
    lft <= rgt /\ rgt < length P /\ k <= rgt - lft /\
    PrimFloat.eqb (nth k (@perpendicular_distance_index_legacy FloatNum P lft rgt) 0%float)
                  (@perp_one FloatNum (nth lft P pzero) (nth rgt P pzero) (nth (lft + k) P pzero)) = false.
Proof. exists d5_P, 1, 4, 1. repeat split; try (cbn; lia). Qed.
Print Assumptions perp_index_legacy_refuted_float.

(* ... and over the reals, for EVERY curve and every sub-range that does not start at 0: every entry is off by `left` *)
Local Open Scope R_scope.
Theorem perp_index_legacy_off_by_left (P : list (R * R)) (lft rgt k : nat) :
  (lft <= rgt)%nat -> (rgt < length P)%nat -> (k <= rgt - lft)%nat ->
  nth k (@perpendicular_distance_index_legacy RNum P lft rgt) 0
  = INR lft + @perp_one RNum (nth lft P (0, 0)) (nth rgt P (0, 0)) (nth (lft + k) P (0, 0)).
Proof.
  intros H1 H2 H3. unfold perpendicular_distance_index_legacy.
  destruct (@perp_index_is_subrange RNum P lft rgt H1 H2) as [Hl Hk].
  change (@zero RNum) with 0 in Hk.
  rewrite (nth_indep _ 0 (IZR (Z.of_nat lft) + 0)) by (rewrite map_length, Hl; lia).
  change (IZR (Z.of_nat lft) + 0) with ((fun d : R => @ofN RNum lft +! d)%num 0).
  rewrite map_nth. rewrite (Hk k H3). cbn [add RNum]. unfold ofN. cbn [ofZ RNum]. rewrite <- INR_IZR_INZ. reflexivity.
Qed.
Print Assumptions perp_index_legacy_off_by_left.
Theorem perp_index_legacy_refuted :
  exists (P : list (R * R)) lft rgt k,
    (lft <= rgt)%nat /\ (rgt < length P)%nat /\ (k <= rgt - lft)%nat /\
    nth k (@perpendicular_distance_index_legacy RNum P lft rgt) 0
    <> @perp_one RNum (nth lft P (0, 0)) (nth rgt P (0, 0)) (nth (lft + k) P (0, 0)).
Proof.
  exists [(0, 0); (1, 0); (2, 3); (3, 4); (4, 0)], 1%nat, 4%nat, 1%nat.
  split; [lia|]. split; [cbn; lia|]. split; [lia|].
  rewrite perp_index_legacy_off_by_left by (cbn; lia). cbn [INR]. lra.
Qed.
Print Assumptions perp_index_legacy_refuted.

(* the CURRENT model: the general theorem behind C17, and its instance on the witness *)
Example perp_index_current_d5 :
  @perpendicular_distance_index FloatNum d5_P 1 4 = [0; 3; 4; 0]%float /\
  @perpendicular_distance_index FloatNum d5_P 1 4
    = @perpendicular_distance_points FloatNum [(1, 0); (2, 3); (3, 4); (4, 0)]%float (1, 0)%float (4, 0)%float.
Proof. split; vm_compute; reflexivity. Qed.
Example perp_index_current_d5_R :
  let P : list (R * R) := [(0, 0); (1, 0); (2, 3); (3, 4); (4, 0)] in
  nth 1 (@perpendicular_distance_index RNum P 1 4) 0 = @perp_one RNum (nth 1 P (0, 0)) (nth 4 P (0, 0)) (nth 2 P (0, 0)).
Proof.
  intros P. destruct (@perp_index_is_subrange RNum P 1 4) as [_ Hk]; [lia|cbn; lia|]. exact (Hk 1%nat ltac:(lia)).
Qed.

(* ================================================================== D16 *)
Local Close Scope R_scope.
Definition d16_P : list (@pt FloatNum) := [(0, 0); (1, 2); (2, 1)]%float.
Definition d16_coef : @coef FloatNum := (0.5, 0x1.3333333333333p-2)%float.      (* (0.5, 0.3) *)
Definition f_1em16 : float := 0x1.cd2b297d889bcp-54%float.                      (* 1e-16 *)

Example rmspe_points_legacy_observed :
  @rmspe_points_legacy FloatNum f_1em16 d16_P d16_coef 0.5%float = 0x1.482f8590f6bc2p+51%float /\
  @rmspe FloatNum [0; 2; 1]%float (@linear_transform FloatNum [0; 1; 2]%float d16_coef) 0.5%float = 0x1.487c24d95d52ap-1%float.
Proof. split; vm_compute; reflexivity. Qed.

(* the rmspe clause of C16_wrappers fails on binary64 (far outside any rounding tolerance: 2.9e15 against 0.64) ... *)
Theorem rmspe_points_legacy_refuted_float :
  exists (P : list (@pt FloatNum)) c eps,
    PrimFloat.ltb 0 eps = true /\
    f_close 0x1.0p-20 0 (@rmspe_points_legacy FloatNum f_1em16 P c eps)
                        (@rmspe FloatNum (ys P) (@linear_transform FloatNum (xs P) c) eps) = false.
Proof. exists d16_P, d16_coef, 0.5%float. split; vm_compute; reflexivity. Qed.
Print Assumptions rmspe_points_legacy_refuted_float.

(* ... and over the reals: one point (0,0), the line y = 1, eps = 1: the metric is 1, the legacy wrapper returns 1e16 *)
Local Open Scope R_scope.
Definition r_1em16 : R := / 10000000000000000.
Theorem rmspe_points_legacy_refuted :
  exists (P : list (R * R)) (b m eps : R),
    0 < eps /\
    @rmspe_points_legacy RNum r_1em16 P (b, m) eps
    <> @rmspe RNum (map snd P) (map (fun xi => m * xi + b) (map fst P)) eps.
Proof.
  exists [(0, 0)], 1, 0, 1. split; [lra|].
  unfold rmspe_points_legacy, lf_rmspe_legacy. rewrite linear_transform_R. unfold line, xs, ys.
  rewrite !rmspe_def. cbn [map fst snd zipR combine length Rsum INR]. unfold zipR. cbn [map combine fst snd Rsum].
  intros H. apply sqrt_inj in H.
  - unfold r_1em16 in H. field_simplify in H. lra.
  - unfold r_1em16. field_simplify. lra.
  - lra.
Qed.
Print Assumptions rmspe_points_legacy_refuted.

(* the CURRENT model: the general theorem behind C16 (points_wrappers), and the value on the witness *)
Example rmspe_points_current_d16 :
  @rmspe_points FloatNum d16_P d16_coef 0.5%float = 0x1.487c24d95d52ap-1%float.
Proof. vm_compute. reflexivity. Qed.
Example rmspe_points_current_d16_R :
  @rmspe_points RNum [(0, 0)] (1, 0) 1 = @rmspe RNum [0] (map (fun xi => 0 * xi + 1) [0]) 1.
Proof. exact (proj1 (proj2 (proj2 (points_wrappers [(0, 0)] 1 0 1 R2classic)))). Qed.
