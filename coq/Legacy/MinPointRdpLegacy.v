(* Legacy/MinPointRdpLegacy.v — the PRE-FIX rdp.min_point_rdp of the pinned commit d561702 (rdp.py:565-567:
   `t.sort(reverse=True); for current_t in t:` — the CALLER's threshold list, and the shared mutable default, is sorted in
   place) and a machine-checked witness of the side effect: documentation of defect D11 (repaired in /repo by a3344e1:
   `for current_t in sorted(t, reverse=True):`); not used by any check.
   Property falsified: C20 "every public function leaves its array and list arguments unmodified".

   Observed on the real pre-fix code (PYTHONPATH = worktree of d561702):
     t = [0.001, 0.01]; rdp.min_point_rdp([[0,1],[1,2]], t, 2) -> ([0, 1], [[0, 0]]);  afterwards t == [0.01, 0.001]
     (t = (0.001, 0.01), a tuple: AttributeError: 'tuple' object has no attribute 'sort')
   On the repaired /repo: same result, afterwards t == [0.001, 0.01] (and the tuple is accepted).

   A Gallina function has no side effects, so the effect is made explicit: the model of a call returns the pair
   (return value, content of the caller's list `t` after the call).  The return value is the current model's
   (`min_point_rdp_legacy_result`): only the effect differs. *)
From Coq Require Import List Arith Bool PrimFloat.
From Knee Require Import Num NumFloat NpList Model.Mapping Model.RdpFixed.
Import ListNotations.
Local Open Scope num_scope.

Section MinPointLegacy.
  Context {N : Num}.
  Variable n : nat.
  Variable eps : T N.
  Variable dist : nat -> nat -> list (T N).
  Variable prio : nat -> nat -> T N.
  Variable gcost : list nat -> T N.

  (* py (pinned): rdp.py:565-572   t.sort(reverse=True); for current_t in t: ...; return rdp_fixed(points, min_points)
     list.sort is stable and in place: after the call the caller's list IS the sorted list *)
  Definition min_point_rdp_legacy (fuel : nat) (ts : list (T N)) (min_points : nat)
    : option (list nat * list row) * list (T N) :=
    let ts' := sort_desc ts in
    (min_point_go n eps dist prio gcost fuel min_points ts', ts').
  (* py (repaired): for current_t in sorted(t, reverse=True): the caller's list is not touched *)
  Definition min_point_rdp_current (fuel : nat) (ts : list (T N)) (min_points : nat)
    : option (list nat * list row) * list (T N) :=
    (min_point_rdp n eps dist prio gcost fuel ts min_points, ts).

  Lemma min_point_rdp_legacy_result fuel ts mp :
    fst (min_point_rdp_legacy fuel ts mp) = min_point_rdp n eps dist prio gcost fuel ts mp.
  Proof. reflexivity. Qed.
  (* the effect, for every curve, oracle, list: the argument is left sorted *)
  Lemma min_point_rdp_legacy_effect fuel ts mp : snd (min_point_rdp_legacy fuel ts mp) = sort_desc ts.
  Proof. reflexivity. Qed.
  (* the repaired function leaves its argument as it was, for every input *)
  Lemma min_point_rdp_current_pure fuel ts mp : snd (min_point_rdp_current fuel ts mp) = ts.
  Proof. reflexivity. Qed.
End MinPointLegacy.

(* the witness: two points, no interior (no distance / priority is ever asked), global cost 0 (observed) *)
Definition d11_dist (l r : nat) : list float := [].
Definition d11_prio (l r : nat) : float := 0%float.
Definition d11_gcost (S : list nat) : float := 0%float.
Definition d11_ts : list float := [0x1.0624dd2f1a9fcp-10; 0x1.47ae147ae147bp-7]%float.      (* [0.001, 0.01] *)
Definition f_eps : float := 0x1.0p-52%float.

Theorem min_point_rdp_legacy_refuted :
  exists n (dist : nat -> nat -> list float) prio gcost fuel ts mp,
    2 <= n /\ n <= fuel /\
    (* the call completes with the observed result ... *)
    fst (@min_point_rdp_legacy FloatNum n f_eps dist prio gcost fuel ts mp) = Some ([0; 1], [(0, 0)]) /\
    (* ... and the caller's list has changed: bit-wise comparison of the two lists *)
    list_all2 f_same (snd (@min_point_rdp_legacy FloatNum n f_eps dist prio gcost fuel ts mp)) ts = false /\
    snd (@min_point_rdp_legacy FloatNum n f_eps dist prio gcost fuel ts mp) = rev ts.
Proof.
  exists 2, d11_dist, d11_prio, d11_gcost, 2, d11_ts, 2.
  split; [auto|]. split; [auto|]. repeat split; vm_compute; reflexivity.
Qed.
Print Assumptions min_point_rdp_legacy_refuted.

(* the CURRENT model on the same input: same result, argument untouched *)
Example min_point_rdp_current_d11 :
  @min_point_rdp_current FloatNum 2 f_eps d11_dist d11_prio d11_gcost 2 d11_ts 2 = (Some ([0; 1], [(0, 0)]), d11_ts) /\
  list_all2 f_same (snd (@min_point_rdp_current FloatNum 2 f_eps d11_dist d11_prio d11_gcost 2 d11_ts 2)) d11_ts = true.
Proof. split; vm_compute; reflexivity. Qed.

(* the shared default [0.01, 0.001, 0.0001] is already descending, so sorting it in place is invisible: the defect
   shows only through a caller-supplied list *)
Example min_point_rdp_default_sorted :
  @sort_desc FloatNum [0x1.47ae147ae147bp-7; 0x1.0624dd2f1a9fcp-10; 0x1.a36e2eb1c432dp-14]%float
  = [0x1.47ae147ae147bp-7; 0x1.0624dd2f1a9fcp-10; 0x1.a36e2eb1c432dp-14]%float.
Proof. vm_compute. reflexivity. Qed.
