(* Legacy/HullLegacy.v — the PRE-FIX convex_hull.graham_scan of the pinned commit d561702 (convex_hull.py:100:
   `while _ccw(stack[-2], stack[-1], p) >= 0: stack.pop()` with no `len(stack) > 1` guard) and a machine-checked witness
   that it raises on collinear input: documentation of defect D7 (repaired in /repo by e989fd6, which adds the guard the
   other two scans already had); not used by any check.
   Property falsified: C18, degenerate clause ("on collinear / duplicated input graham_scan still returns every extreme
   vertex and only boundary points": an exception is not an output on which the clause holds).

   Observed on the real pre-fix code (PYTHONPATH = worktree of d561702):
     convex_hull.graham_scan([[0,0],[1,0],[2,0],[3,0]])  -> IndexError: list index out of range
     (also [[0,0],[1,1],[2,2],[3,3]] and [[0,0],[1,2],[2,4],[3,6]]);  _dist_points(p0, .) = [0, 1, 2, 3]
   On the repaired /repo: graham_scan([[0,0],[1,0],[2,0],[3,0]]) -> [0 3].
   In general position the guard is never needed: graham_scan([[0,0],[1,0],[1,1],[0,1]]) -> [0 3 2 1] on both trees
   (`graham_scan_legacy_square`).

   The model is Model/Hull.v with the one differing loop: `pop_while_legacy` evaluates stack[-2] BEFORE looking at the
   stack length, so a stack of fewer than two rows is an IndexError (None).  Sorting, pivot, row look-up are the current
   definitions, reused. *)
From Coq Require Import List Arith Bool PrimFloat.
From Knee Require Import Num NumFloat NpList Model.Hull.
Import ListNotations.
Local Open Scope num_scope.

Section ScanLegacy.
  Variable test : nat -> nat -> nat -> bool.
  (* py (pinned): convex_hull.py:100-101   while _ccw(stack[-2], stack[-1], p) >= 0: stack.pop()
     st is the stack, top first.  None = IndexError (stack[-2] of a stack with fewer than two rows).
     fuel = length of the stack (each iteration pops one row) *)
  Fixpoint pop_while_legacy (i : nat) (st : list nat) : option (list nat) :=
    match st with
    | b :: ((a :: _) as st') => if test a b i then pop_while_legacy i st' else Some st
    | _ => None
    end.
  Definition scan_step_legacy (st : option (list nat)) (i : nat) : option (list nat) :=
    match st with
    | None => None
    | Some s => option_map (cons i) (pop_while_legacy i s)
    end.
  Definition scan_legacy (k n : nat) : option (list nat) :=
    option_map (@rev nat) (fold_left scan_step_legacy (seq k (n - k)) (Some (rev (seq 0 k)))).

  (* where the guard is never needed the two loops agree: the legacy loop, when it returns, returns the current result *)
  Lemma pop_while_legacy_some i st r : pop_while_legacy i st = Some r -> pop_while test i st = r.
  Proof.
    induction st as [|b st IH]; [discriminate|]. destruct st as [|a st']; [discriminate|].
    cbn [pop_while_legacy pop_while]. destruct (test a b i); [apply IH|]. intros H; inversion H; reflexivity.
  Qed.
End ScanLegacy.

Section HullLegacy.
  Context {N : Num}.
  (* py (pinned): convex_hull.py:91-109 *)
  Definition graham_positions_legacy (cc : nat -> nat -> nat -> T N) (sp : list nat) : option (list nat) :=
    if length sp <? 3 then Some [] else scan_legacy (graham_test cc sp) 3 (length sp).
  Definition graham_scan_legacy (pts : list (@pt N)) (dist : nat -> T N) : option (list nat) :=
    match graham_sorted pts dist with
    | None => None
    | Some sp =>
        match graham_positions_legacy (ccw_idx pts) sp with
        | None => None
        | Some pos => map_opt (first_eq pts) (map (fun p => nth p sp 0) pos)
        end
    end.
End HullLegacy.

(* the witness: four collinear points on the x axis; the distances to the pivot are exact *)
Definition d7_pts : list (@pt FloatNum) := [(0, 0); (1, 0); (2, 0); (3, 0)]%float.
Definition d7_dist (i : nat) : float := nth i [0; 1; 2; 3]%float 0%float.

(* distinct planar points, yet the pre-fix model raises (None): every orientation is 0, `>= 0` pops the three seeded rows
   down to one, and stack[-2] is evaluated on it *)
Theorem graham_scan_legacy_refuted :
  exists (pts : list (@pt FloatNum)) dist,
    distinctb pts = true /\ 3 <= length pts /\ @graham_scan_legacy FloatNum pts dist = None.
Proof. exists d7_pts, d7_dist. split; [vm_compute; reflexivity|]. split; [vm_compute; auto|]. vm_compute. reflexivity. Qed.
Print Assumptions graham_scan_legacy_refuted.

(* the sort succeeded and the failure is in the scan itself *)
Example d7_sorted : @graham_sorted FloatNum d7_pts d7_dist = Some [0; 1; 2; 3].
Proof. vm_compute. reflexivity. Qed.
Example d7_underflow : @pop_while_legacy (@graham_test FloatNum (ccw_idx d7_pts) [0; 1; 2; 3]) 3 [2; 1; 0] = None.
Proof. vm_compute. reflexivity. Qed.

(* the CURRENT model on the same input returns the two extreme vertices and satisfies the structural and the
   degenerate clause of C18 *)
Example graham_scan_current_d7 :
  exists out, @graham_scan FloatNum d7_pts d7_dist = Some out /\ out = [0; 3] /\
              graham_structb d7_pts out = true /\ graham_degenb d7_pts out = true.
Proof. exists [0; 3]. repeat split; vm_compute; reflexivity. Qed.

(* on an input in general position the legacy loop never needs the guard and agrees with the current model *)
Definition d7_square : list (@pt FloatNum) := [(0, 0); (1, 0); (1, 1); (0, 1)]%float.
Definition d7_square_dist (i : nat) : float := nth i [0; 1; 0x1.6a09e667f3bcdp+0; 1]%float 0%float.
Example graham_scan_legacy_square :
  @graham_scan_legacy FloatNum d7_square d7_square_dist = @graham_scan FloatNum d7_square d7_square_dist /\
  @graham_scan FloatNum d7_square d7_square_dist = Some [0; 3; 2; 1].
Proof. split; vm_compute; reflexivity. Qed.
