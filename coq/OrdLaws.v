(* OrdLaws.v — Tier O: the hypothesis that the values a theorem COMPARES form a total preorder.
   Stated with the boolean comparisons the code uses.  Instances: FloatOrder.v (non-NaN doubles),
   ROrder below in NumR-based files. *)
From Coq Require Import List Bool.
From Knee Require Import Num.

Section Ord.
  Context {N : Num}.
  Record TotalPreorderOn (P : T N -> Prop) : Prop := {
    ord_refl : forall x, P x -> leb x x = true;
    ord_trans : forall x y z, P x -> P y -> P z -> leb x y = true -> leb y z = true -> leb x z = true;
    ord_total : forall x y, P x -> P y -> leb x y = true \/ leb y x = true;
    ord_ltb : forall x y, P x -> P y -> ltb x y = negb (leb y x);
  }.
  Definition notnan (x : T N) : Prop := isnan x = false.
End Ord.
