(* FloatOrder.v — non-NaN binary64 values (±0, ±inf included) are totally pre-ordered by <=, and
   < is the negation of the converse.  Proved from the standard library's specification of the
   primitive comparisons (FloatAxioms.leb_spec / ltb_spec / eqb_spec) by case analysis on SpecFloat.SFcompare. *)
From Coq Require Import ZArith Bool Lia PrimFloat FloatAxioms SpecFloat FloatOps.
From Knee Require Import Num NumFloat OrdLaws.

Local Open Scope Z_scope.

Definition sf_notnan (x : spec_float) : Prop := match x with S754_nan => False | _ => True end.

Lemma f_isnan_spec x : f_isnan x = false -> sf_notnan (Prim2SF x).
Proof.
  unfold f_isnan. rewrite eqb_spec. unfold SFeqb.
  destruct (Prim2SF x) as [s|s| |s m e]; cbn; auto; discriminate.
Qed.

(* SFcompare as a lexicographic comparison: characterise via a key *)
Lemma Pos_compare_cont_refl (c : comparison) p : Pos.compare_cont c p p = c.
Proof. revert c; induction p; intros; cbn; auto. Qed.

Lemma SFcompare_refl x : sf_notnan x -> SFcompare x x = Some Eq.
Proof.
  destruct x as [s|s| |s m e]; cbn; try tauto; intros _.
  - destruct s; auto.
  - destruct s; rewrite Z.compare_refl; cbn; rewrite ?Pos.compare_refl; auto.
Qed.

Definition cmp_le (c : option comparison) : bool := match c with Some Lt | Some Eq => true | _ => false end.
Definition cmp_lt (c : option comparison) : bool := match c with Some Lt => true | _ => false end.
Lemma SFleb_cmp x y : SFleb x y = cmp_le (SFcompare x y).
Proof. unfold SFleb. destruct (SFcompare x y) as [[]|]; reflexivity. Qed.
Lemma SFltb_cmp x y : SFltb x y = cmp_lt (SFcompare x y).
Proof. unfold SFltb. destruct (SFcompare x y) as [[]|]; reflexivity. Qed.

(* numeric key: maps a non-NaN spec float to a triple ordered lexicographically *)
Definition skey (x : spec_float) : Z * Z * Z :=
  match x with
  | S754_zero _ => (0, 0, 0)
  | S754_infinity s => if s then (-2, 0, 0) else (2, 0, 0)
  | S754_nan => (0, 0, 0)
  | S754_finite s m e => if s then (-1, - e, - Zpos m) else (1, e, Zpos m)
  end.
Definition lex3 (a b : Z * Z * Z) : comparison :=
  let '(a1, a2, a3) := a in let '(b1, b2, b3) := b in
  match a1 ?= b1 with Eq => match a2 ?= b2 with Eq => a3 ?= b3 | c => c end | c => c end.
Lemma SFcompare_key x y : sf_notnan x -> sf_notnan y -> SFcompare x y = Some (lex3 (skey x) (skey y)).
Proof.
  destruct x as [sx|sx| |sx mx ex], y as [sy|sy| |sy my ey]; cbn; try tauto; intros _ _;
    try (destruct sx, sy; reflexivity); try (destruct sx; reflexivity); try (destruct sy; reflexivity).
  destruct sx, sy; cbn; try reflexivity.
  - rewrite Z.compare_opp. rewrite (Z.compare_antisym ex ey). unfold Pos.compare.
    destruct (ex ?= ey); reflexivity.
Qed.

Lemma lex3_le_trans a b c : lex3 a b <> Gt -> lex3 b c <> Gt -> lex3 a c <> Gt.
Proof.
  destruct a as [[a1 a2] a3], b as [[b1 b2] b3], c as [[c1 c2] c3]. unfold lex3.
  destruct (Z.compare_spec a1 b1), (Z.compare_spec b1 c1), (Z.compare_spec a1 c1); try lia; try congruence;
  destruct (Z.compare_spec a2 b2), (Z.compare_spec b2 c2), (Z.compare_spec a2 c2); try lia; try congruence;
  destruct (Z.compare_spec a3 b3), (Z.compare_spec b3 c3), (Z.compare_spec a3 c3); try lia; congruence.
Qed.
Lemma lex3_total a b : lex3 a b <> Gt \/ lex3 b a <> Gt.
Proof.
  destruct a as [[a1 a2] a3], b as [[b1 b2] b3]. unfold lex3.
  destruct (Z.compare_spec a1 b1), (Z.compare_spec b1 a1); try lia; try (left; congruence); try (right; congruence);
  destruct (Z.compare_spec a2 b2), (Z.compare_spec b2 a2); try lia; try (left; congruence); try (right; congruence);
  destruct (Z.compare_spec a3 b3), (Z.compare_spec b3 a3); try lia; try (left; congruence); try (right; congruence).
Qed.
Lemma lex3_antisym a b : lex3 b a = CompOpp (lex3 a b).
Proof.
  destruct a as [[a1 a2] a3], b as [[b1 b2] b3]. unfold lex3.
  rewrite (Z.compare_antisym a1 b1), (Z.compare_antisym a2 b2), (Z.compare_antisym a3 b3).
  destruct (a1 ?= b1), (a2 ?= b2), (a3 ?= b3); reflexivity.
Qed.

Lemma cmp_le_iff c : cmp_le (Some c) = true <-> c <> Gt.
Proof. destruct c; cbn; split; intros; try congruence; auto. Qed.

Theorem float_total_preorder : @TotalPreorderOn FloatNum (@notnan FloatNum).
Proof.
  constructor; cbn -[PrimFloat.leb PrimFloat.ltb]; unfold notnan; cbn -[PrimFloat.leb PrimFloat.ltb].
  - intros x Hx. rewrite leb_spec, SFleb_cmp, SFcompare_refl; auto using f_isnan_spec.
  - intros x y z Hx Hy Hz. rewrite !leb_spec, !SFleb_cmp.
    rewrite !SFcompare_key by auto using f_isnan_spec. rewrite !cmp_le_iff. apply lex3_le_trans.
  - intros x y Hx Hy. rewrite !leb_spec, !SFleb_cmp.
    rewrite !SFcompare_key by auto using f_isnan_spec. rewrite !cmp_le_iff. apply lex3_total.
  - intros x y Hx Hy. rewrite ltb_spec, leb_spec, SFltb_cmp, SFleb_cmp.
    rewrite !SFcompare_key by auto using f_isnan_spec. rewrite (lex3_antisym (skey (Prim2SF x)) (skey (Prim2SF y))).
    destruct (lex3 (skey (Prim2SF x)) (skey (Prim2SF y))); reflexivity.
Qed.
Print Assumptions float_total_preorder.
