(* Num.v — the numeric signature every model function is generic over.
   No laws: only operations.  Instances: FloatNum (NumFloat.v, binary64, runs),
   RNum (NumR.v, Coq reals, Tier-A theorems). *)
From Coq Require Import ZArith List Bool.
Import ListNotations.

Record Num := mkNum {
  T : Type;
  zero : T;
  one : T;
  add : T -> T -> T;
  sub : T -> T -> T;
  mul : T -> T -> T;
  div : T -> T -> T;
  neg : T -> T;
  abs : T -> T;
  sqrt : T -> T;
  ltb : T -> T -> bool;      (* IEEE on floats: false when an operand is NaN *)
  leb : T -> T -> bool;
  eqb : T -> T -> bool;
  isnan : T -> bool;
  ofZ : Z -> T;              (* exact for |z| < 2^53 on floats *)
  truncZ : T -> option Z;    (* Python int(): toward zero; None on NaN/inf *)
  ceilZ : T -> option Z;     (* math.ceil *)
  floorZ : T -> option Z;    (* math.floor *)
  ln : T -> T;               (* natural logarithm; only rmsle uses it *)
}.

Arguments zero {_}. Arguments one {_}.
Arguments add {_}. Arguments sub {_}. Arguments mul {_}. Arguments div {_}.
Arguments neg {_}. Arguments abs {_}. Arguments sqrt {_}.
Arguments ltb {_}. Arguments leb {_}. Arguments eqb {_}. Arguments isnan {_}.
Arguments ofZ {_}. Arguments truncZ {_}. Arguments ceilZ {_}. Arguments floorZ {_}.
Arguments ln {_}.

Declare Scope num_scope.
Delimit Scope num_scope with num.
Infix "+!" := add (at level 50, left associativity) : num_scope.
Infix "-!" := sub (at level 50, left associativity) : num_scope.
Infix "*!" := mul (at level 40, left associativity) : num_scope.
Infix "/!" := div (at level 40, left associativity) : num_scope.
Infix "<?!" := ltb (at level 70, no associativity) : num_scope.
Infix "<=?!" := leb (at level 70, no associativity) : num_scope.
Infix "=?!" := eqb (at level 70, no associativity) : num_scope.

Section Derived.
  Context {N : Num}.
  Local Open Scope num_scope.

  Definition ofN (n : nat) : T N := ofZ (Z.of_nat n).
  Definition two : T N := ofZ 2.
  Definition half : T N := one /! two.
  (* Python's max(a, b) / min(a, b) on floats: `b if b > a else a` / `b if b < a else a` *)
  Definition pymax (a b : T N) : T N := if a <?! b then b else a.
  Definition pymin (a b : T N) : T N := if b <?! a then b else a.
  (* np.maximum / np.minimum propagate NaN; on non-NaN operands they agree with pymax/pymin up to the sign of zero *)
  Definition npmax (a b : T N) : T N :=
    if isnan a then a else if isnan b then b else if a <?! b then b else a.
  Definition npmin (a b : T N) : T N :=
    if isnan a then a else if isnan b then b else if b <?! a then b else a.
  Definition gtb (a b : T N) : bool := b <?! a.
  Definition geb (a b : T N) : bool := b <=?! a.
  Definition sq (a : T N) : T N := a *! a.
  (* sequential (left fold) sum: what numba compiles np.sum / np.mean to, and Python's sum() *)
  Definition seq_sum (l : list (T N)) : T N := fold_left add l zero.
End Derived.
