(* Model/PipelineClosed.v — the end-to-end pipeline of property C08 with the CONCRETE stage models plugged in
   (extension of Model/Pipeline.v, where the corner filter and the cluster filter are abstract stage functions):

     reduced, removed = <simplifier>(points, ...)                      Model/Rdp.v, Model/RdpFixed.v   (C01)
     pr     = points[reduced]
     knees  = <detector>.multi_knee(pr, t1, t2)                        Model/MultiKnee.v               (C02)
     k1     = pp.filter_worst_knees(pr, knees)                         Model/Pipeline.v = Model/Filters.v (C13)
     k2     = pp.filter_corner_knees(pr, k1, tc)                       Model/Filters.v                 (C13)
     k3     = pp.filter_clusters(pr, k2, <linkage>, tl, <ranking>)     Model/ClusterFilter.v (C12) over the labels of
                                                                       Model/Clustering.v (C11) and the lower hull of
                                                                       Model/Hull.v (C18)
     out    = rdp.mapping(k3, reduced, removed)                        Model/Mapping.v                 (C07)

   py: demos/curvature.py:55-69 (and the other demos: same composition).
   A stage is a function  list nat -> option (list nat)  (None = the stage raised).  What remains an oracle is exactly
   what the component models take as oracles: the simplifier's distance / cost tables, the detector's straightness and
   single-knee answers, kr.smooth_ranking per cluster, the sums of shortest distances of hull mode, np.argsort. *)
From Coq Require Import List Arith Bool.
From Knee Require Import Num NpList Model.Mapping Model.Pipeline Model.Filters Model.ClusterFilter Model.Clustering
     Model.MultiKnee Model.Hull.
Import ListNotations.
Local Open Scope num_scope.

Section PipelineClosed.
  Context {N : Num}.

  (* py: demos/*.py  points_reduced = points[reduced]   (xo i, yo i = points[i][0], points[i][1]) *)
  Definition reduced_points (xo yo : nat -> T N) (red : list nat) : list (@Filters.point N) :=
    map (fun i => (xo i, yo i)) red.

  (* py: postprocessing.py:159-160  knee_points = points[knees]; the linkage functions read column 0 only *)
  Definition knee_xs (xs : list (T N)) (knees : list nat) : list (T N) := map (fun k => nth k xs zero) knees.

  (* py: postprocessing.py:160  clusters = clustering(knee_points, t), by the C11 model *)
  Definition c11_labels (lk : linkage) (xs : list (T N)) (t : T N) (knees : list nat) : option (list nat) :=
    linkage_labels lk (knee_xs xs knees) t.

  (* py: postprocessing.py:31-63 filter_corner_knees as a stage (it never raises on valid indices) *)
  Definition corner_stage (pr : list (@Filters.point N)) (t : T N) (l : list nat) : option (list nat) :=
    Some (filter_corner pr l t).

  (* py: postprocessing.py:130-249 filter_clusters as a stage.  `lab` = the clustering callable applied to the knees;
     it is NOT called when len(knees) <= 1 (postprocessing.py:156-157), so an exception of `lab` on the empty array
     cannot surface *)
  Definition cluster_stage (sorter : list (T N) -> list nat) (score : list nat -> list (T N)) (hull : list nat)
             (sdist : nat -> nat -> T N) (xs : list (T N)) (m : fmode)
             (lab : list nat -> option (list nat)) (l : list nat) : option (list nat) :=
    if length l <=? 1 then Some l
    else match lab l with
         | None => None
         | Some labels => filter_clusters sorter score hull sdist xs m labels l
         end.

  (* the composition of Model/Pipeline.v with stages that may raise *)
  Definition pipeline_opt (red : list nat) (rem : list row) (yo : nat -> T N) (knees : list nat)
             (f_corner f_cluster : list nat -> option (list nat)) : option (list nat) :=
    let k1 := Pipeline.filter_worst (reduced_height yo red) knees in
    match f_corner k1 with
    | None => None
    | Some k2 =>
        match f_cluster k2 with
        | None => None
        | Some k3 => mapping k3 red rem true
        end
    end.

  (* worst-knee + the two concrete filters + mapping, from a given reduction and a given knee list *)
  Definition pipeline_filters (red : list nat) (rem : list row) (xo yo : nat -> T N) (knees : list nat)
             (tc : T N) (lk : linkage) (tl : T N)
             (sorter : list (T N) -> list nat) (score : list nat -> list (T N)) (hull : list nat)
             (sdist : nat -> nat -> T N) (m : fmode) : option (list nat) :=
    let pr := reduced_points xo yo red in
    let xs := map fst pr in
    pipeline_opt red rem yo knees (corner_stage pr tc)
                 (cluster_stage sorter score hull sdist xs m (c11_labels lk xs tl)).

  (* the whole pipeline.  simp = what the simplifier returned (Some (reduced, removed)); the oracles of the stages that
     run on the reduced curve are functions of the reduction (they are evaluated on points[reduced]); the lower hull of
     hull mode is computed in the model (Model/Hull.v: bit-reproducible cross products) *)
  Definition pipeline_closed (simp : option (list nat * list row))
             (mkc : mk_cost) (straightR : list nat -> nat -> nat -> T N) (knee1R : list nat -> nat -> nat -> option nat)
             (t1 : T N) (t2 : nat)
             (xo yo : nat -> T N) (tc : T N) (lk : linkage) (tl : T N)
             (sorter : list (T N) -> list nat) (scoreR : list nat -> list nat -> list (T N))
             (sdistR : list nat -> nat -> nat -> T N) (m : fmode) : option (list nat) :=
    match simp with
    | None => None
    | Some (red, rem) =>
        match multi_knee mkc (straightR red) (knee1R red) t1 t2 (length red) with
        | None => None
        | Some (knees, _) =>
            pipeline_filters red rem xo yo knees tc lk tl sorter (scoreR red)
                             (Hull.graham_scan_lower (reduced_points xo yo red)) (sdistR red) m
        end
    end.

  (* the simplifier outputs without the iteration record of Model/Rdp.v *)
  Definition drop_vis (o : option (list nat * list row * list (nat * nat))) : option (list nat * list row) :=
    match o with Some (red, rem, _) => Some (red, rem) | None => None end.

  (* the corner filter's decision rule as a predicate on an (input, output) pair: the output contains exactly the
     input knees the code's test keeps (C13 corner_membership) *)
  Definition corner_rule_b (pr : list (@Filters.point N)) (t : T N) (l out : list nat) : bool :=
    forallb (fun k => Bool.eqb (Filters.memb k out) (corner_keepb pr t k)) l.
End PipelineClosed.
