(* Model/Scores.v — evaluation.cm / accuracy / f1score / mcc / mae / mse / rmse / rmspe (C19).

   cm is bit-reproducible (fabs, -, /, comparisons, argmin) and computed in-model.  The error scores pick the
   nearest neighbour by np.argmin over np.linalg.norm(b - p, axis=1); that norm enters as the ORACLE table
     dist i j = np.linalg.norm(b - a[i], axis=1)[j]
   (positions in the iterated side a and the searched side b), so no in-model arithmetic decides the neighbour;
   the per-point error terms (abs, square, /, np.sum of two terms, np.mean) are computed in-model. *)
From Coq Require Import ZArith List Bool Arith.
From Knee Require Import Num NpList.
Import ListNotations.
Local Open Scope num_scope.

(* py: evaluation.py:29-39 Strategy *)
Inductive strategy := SKnees | SExpected | SBest | SWorst.

(* the confusion matrix [[tp, fp], [fn, tn]] and the matching behind tp: pairs (position in expected, position in knees) *)
Record cmres := mkCm { c_tp : nat; c_fp : nat; c_fn : nat; c_tn : Z; c_match : list (nat * nat) }.

Section Scores.
  Context {N : Num}.
  Definition point := (T N * T N)%type.
  Definition pzero : point := (zero, zero).

  (* ------------------------------------------------------------------------------------------ *)
  (* py: evaluation.py:526-528  max_x, _ = points.max(axis=0); min_x, _ = points.min(axis=0); dx = math.fabs(max_x - min_x) *)
  Definition cm_dx (xs : list (T N)) : T N := abs (np_max xs -! np_min xs).
  (* py: evaluation.py:533  distances = np.fabs(knees_points_x - px)/dx *)
  Definition cm_dists (kxs : list (T N)) (dx px : T N) : list (T N) := map (fun kx => abs (kx -! px) /! dx) kxs.
  (* py: evaluation.py:534  idx = np.argmin(distances) *)
  Definition cm_cand (kxs : list (T N)) (dx px : T N) : nat := argmin (cm_dists kxs dx px).
  (* py: evaluation.py:536  distances[idx] <= t *)
  Definition cm_within (kxs : list (T N)) (dx t px : T N) : bool :=
    nth (cm_cand kxs dx px) (cm_dists kxs dx px) zero <=?! t.

  (* loop state: used_knees, the matching, tp, fn *)
  Definition cmstate := (list nat * list (nat * nat) * nat * nat)%type.
  (* py: evaluation.py:532-540  for px, _ in expected: ... *)
  Fixpoint cm_loop (kxs : list (T N)) (dx t : T N) (exs : list (T N)) (j : nat) (st : cmstate) : cmstate :=
    match exs with
    | [] => st
    | px :: exs' =>
        let '(used, M, tp, fn) := st in
        let idx := cm_cand kxs dx px in
        if cm_within kxs dx t px && negb (existsb (Nat.eqb idx) used)      (* `idx not in used_knees` *)
        then cm_loop kxs dx t exs' (S j) (used ++ [idx], M ++ [(j, idx)], S tp, fn)
        else cm_loop kxs dx t exs' (S j) (used, M, tp, S fn)
    end.

  (* py: evaluation.py:511-544 cm(points, knees, expected, t); xs = points[:,0], kxs = points[knees][:,0], exs = expected[:,0] *)
  Definition cm_core (n : nat) (xs kxs exs : list (T N)) (t : T N) : cmres :=
    let dx := cm_dx xs in
    let '(used, M, tp, fn) := cm_loop kxs dx t exs 0 ([], [], 0, 0) in
    let fp := length kxs - tp in                                        (* max(len(knees) - tp, 0) *)
    mkCm tp fp fn (Z.of_nat n - (Z.of_nat tp + Z.of_nat fp + Z.of_nat fn))%Z M.
  Definition knee_points (pts : list point) (knees : list nat) : list point := map (fun k => nth k pts pzero) knees.
  Definition cm (pts : list point) (knees : list nat) (expected : list point) (t : T N) : cmres :=
    cm_core (length pts) (map fst pts) (map fst (knee_points pts knees)) (map fst expected) t.

  (* the stated greedy one-to-one matching, written as a specification: walk the expected points in order with the
     set of knees already claimed; an expected point claims its nearest knee (in x) iff that knee is within the
     tolerance and unclaimed *)
  Fixpoint greedy_spec (kxs : list (T N)) (dx t : T N) (exs : list (T N)) (j : nat) (claimed : list nat) : list (nat * nat) :=
    match exs with
    | [] => []
    | px :: exs' =>
        let k := cm_cand kxs dx px in
        if cm_within kxs dx t px && negb (existsb (Nat.eqb k) claimed)
        then (j, k) :: greedy_spec kxs dx t exs' (S j) (k :: claimed)
        else greedy_spec kxs dx t exs' (S j) claimed
    end.

  (* ------------------------------------------------------------------------------------------ *)
  (* py: evaluation.py:354-373 (and 407-426, 478-497)  the strategy chooses the iterated side a and the searched side b *)
  Definition sides {A} (s : strategy) (kp ex : list A) : list A * list A :=
    match s with
    | SKnees => (kp, ex)
    | SExpected => (ex, kp)
    | SBest => if length ex <=? length kp then (ex, kp) else (kp, ex)
    | SWorst => if length kp <=? length ex then (ex, kp) else (kp, ex)
    end.

  Section Errors.
    Variable dist : nat -> nat -> T N.      (* oracle: np.linalg.norm(b - a[i], axis=1)[j] *)

    (* py: evaluation.py:376-377  distances = np.linalg.norm(b-p, axis=1); idx = np.argmin(distances) *)
    Definition nn_idx (nb i : nat) : nat := argmin (map (dist i) (seq 0 nb)).
    Definition nn (b : list point) (i : nat) : point := nth (nn_idx (length b) i) b pzero.

    (* per-point terms *)
    (* py: evaluation.py:378  np.sum(np.abs(p-b[idx])) *)
    Definition l1_term (p q : point) : T N := np_sum [abs (fst p -! fst q); abs (snd p -! snd q)].
    (* py: evaluation.py:431  np.sum(np.square(p-b[idx])) *)
    Definition l2_term (p q : point) : T N := np_sum [sq (fst p -! fst q); sq (snd p -! snd q)].
    Definition eps16 : T N := one /! ofZ 10000000000000000.
    (* py: evaluation.py:504  e = (p - b[idx]) / (p + eps) *)
    Definition pe_terms (p q : point) : list (T N) :=
      [(fst p -! fst q) /! (fst p +! eps16); (snd p -! snd q) /! (snd p +! eps16)].

    (* py: evaluation.py:375-378 (428-431)  error = 0.0; for p in a: ... error += term *)
    Fixpoint err_loop (term : point -> point -> T N) (a b : list point) (i : nat) (error : T N) : T N :=
      match a with
      | [] => error
      | p :: a' => err_loop term a' b (S i) (error +! term p (nn b i))
      end.
    (* py: evaluation.py:380 / 433  return error / (len(a)*2.0) *)
    Definition mean_err (term : point -> point -> T N) (a b : list point) : T N :=
      err_loop term a b 0 zero /! (ofN (length a) *! two).

    (* py: evaluation.py:330-380 mae *)
    Definition mae (s : strategy) (kp ex : list point) : T N :=
      let '(a, b) := sides s kp ex in mean_err l1_term a b.
    (* py: evaluation.py:383-433 mse *)
    Definition mse (s : strategy) (kp ex : list point) : T N :=
      let '(a, b) := sides s kp ex in mean_err l2_term a b.
    (* py: evaluation.py:436-455 rmse = math.sqrt(mse) *)
    Definition rmse (s : strategy) (kp ex : list point) : T N := sqrt (mse s kp ex).

    (* py: evaluation.py:499-505  errors = []; for p in a: ... errors.extend(e) *)
    Fixpoint pe_loop (a b : list point) (i : nat) (errors : list (T N)) : list (T N) :=
      match a with
      | [] => errors
      | p :: a' => pe_loop a' b (S i) (errors ++ pe_terms p (nn b i))
      end.
    (* py: evaluation.py:458-508 rmspe: np.sqrt(np.mean(np.square(errors))) *)
    Definition rmspe (s : strategy) (kp ex : list point) : T N :=
      let '(a, b) := sides s kp ex in sqrt (np_mean (map sq (pe_loop a b 0 []))).

    (* declarative forms: the mean per-coordinate nearest-neighbour error from the chosen side *)
    Definition indexed {A} (l : list A) : list (nat * A) := combine (seq 0 (length l)) l.
    Definition mean_err_spec (term : point -> point -> T N) (a b : list point) : T N :=
      seq_sum (map (fun ip => term (snd ip) (nn b (fst ip))) (indexed a)) /! (ofN (length a) *! two).
    Definition rmspe_spec (a b : list point) : T N :=
      sqrt (np_mean (map sq (flat_map (fun ip => pe_terms (snd ip) (nn b (fst ip))) (indexed a)))).
  End Errors.

  (* the closed form of the oracle: np.linalg.norm of a 2-vector = sqrt(add.reduce(x*x)) *)
  Definition norm2 (p q : point) : T N := sqrt (np_sum [sq (fst q -! fst p); sq (snd q -! snd p)]).
  Definition dist_closed (a b : list point) (i j : nat) : T N := norm2 (nth i a pzero) (nth j b pzero).

  (* ------------------------------------------------------------------------------------------ *)
  (* py: evaluation.py:547-561 accuracy: (tp+tn)/(tp+tn+fp+fn) on int64 entries (true division -> float64) *)
  Definition accuracy (tp fp fn tn : Z) : T N := ofZ (tp + tn) /! ofZ (tp + tn + fp + fn).
  (* py: evaluation.py:564-578 f1score: (2.0*tp)/(2*tp+fp+fn) *)
  Definition f1score (tp fp fn : Z) : T N := (two *! ofZ tp) /! ofZ (2 * tp + fp + fn).
  (* py: evaluation.py:581-598 mcc: n = tp*tn - fp*fn; d = math.sqrt((tp+fp)*(tp+fn)*(tn+fp)*(tn+fn)); n/d *)
  Definition mcc_den2 (tp fp fn tn : Z) : Z := ((tp + fp) * (tp + fn) * (tn + fp) * (tn + fn))%Z.
  Definition mcc (tp fp fn tn : Z) : T N := ofZ (tp * tn - fp * fn) /! sqrt (ofZ (mcc_den2 tp fp fn tn)).
End Scores.
