(* Model/Detectors.v — control layer of the four single-knee detectors (property C09):
   curvature.knee, dfdt.get_knee / dfdt.knee, menger.knee, lmethod.get_knee / lmethod.knee.
   The criterion arrays (curvature, gradient, ISODATA thresholds, Menger curvatures, L-method
   fitting errors) are ORACLES: function arguments filled by the harness with what the library's
   own primitives return.  The decisions (arg-extremum over the interior, the refinement loops)
   are modelled exactly.  Executable definitions only; the boolean specification predicates the
   theorems are stated with (and the judge evaluates on the implementation's output) are at the end. *)
From Coq Require Import ZArith List Bool Arith.
From Knee Require Import Num NpList.
Import ListNotations.
Local Open Scope num_scope.

(* value of an oracle at a key: a value, "the primitive raised", "not in the table" *)
Inductive oval (A : Type) : Type := OVal (a : A) | ORaise | OMissing.
Arguments OVal {A} a. Arguments ORaise {A}. Arguments OMissing {A}.

(* outcome of a detector: Ok ks = returned normally, ks = the knee found by each loop iteration in order
   (the answer is the last one, the iteration count is the length); Exc = a Python exception;
   Missing = an oracle key absent from the table; OutOfFuel = the loop did not stop within the fuel *)
Inductive res : Type := Ok (ks : list nat) | Exc | Missing | OutOfFuel.
Definition res_cons (k : nat) (r : res) : res := match r with Ok ks => Ok (k :: ks) | _ => r end.
Definition res_knee (r : res) : option nat :=
  match r with Ok (k :: ks) => Some (last ks k) | _ => None end.
Definition res_iters (r : res) : option nat := match r with Ok ks => Some (length ks) | _ => None end.

(* py: lmethod.py:57-70 Refinement *)
Inductive refinement : Type := RefNone | RefOriginal | RefAdjusted.

Section Detectors.
  Context {N : Num}.

  (* ------------------------------------------------------------------ curvature *)
  (* py: curvature.py:27-51 knee.  curv = np.absolute(gradient2) / ((1.0 + gradient1**2.0)**1.5) (oracle table,
     one entry per point); idx = np.argmax(curvature[1:-1]) + 1.  None: uts.gradient raises for n < 3
     (and np.argmax of an empty slice would raise) *)
  Definition curvature_knee (curv : list (T N)) : option nat :=
    match interior curv with
    | [] => None
    | _ :: _ => Some (S (argmax (interior curv)))
    end.

  (* ------------------------------------------------------------------ DFDT *)
  (* py: dfdt.py:55-56  diff = np.absolute(gradient - t)   (IEEE subtraction and |.|: bit-reproducible) *)
  Definition dfdt_diff (g : list (T N)) (t : T N) : list (T N) := map (fun v => abs (v -! t)) g.
  (* py: dfdt.py:44-57 get_knee_gradient, t = thresh.isodata(gradient) supplied by the oracle.
     knee = np.argmin(diff[1:-1]) + 1; None = ValueError of np.argmin on an empty slice *)
  Definition dfdt_get_knee_gradient (g : list (T N)) (t : T N) : option nat :=
    match interior (dfdt_diff g t) with
    | [] => None
    | _ :: _ => Some (S (argmin (interior (dfdt_diff g t))))
    end.
  (* py: dfdt.py:29-41 get_knee: gradient = grad.cfd(x, y) (oracle, raises for n < 3); one pass *)
  Definition dfdt_get_knee (grad : list (T N)) (t : T N) : option nat :=
    if length grad <? 3 then None else dfdt_get_knee_gradient grad t.

  (* py: dfdt.py:60-85 knee.  The while loop, entered at its body: `last` is last_knee after the
     assignment last_knee = knee, `cutoff` the current cut-off.  iso c = thresh.isodata(gradient[c:]).
       knee = get_knee_gradient(gradient[cutoff:]) + cutoff
       cutoff = int(math.ceil(knee/2.0))
       continue while last_knee < knee and (len(x)-cutoff) > 2 *)
  Fixpoint dfdt_iter (grad : list (T N)) (iso : nat -> option (T N)) (fuel last cutoff : nat) : res :=
    match fuel with
    | O => OutOfFuel
    | S f =>
        match iso cutoff with
        | None => Missing
        | Some t =>
            match dfdt_get_knee_gradient (skipn cutoff grad) t with
            | None => Exc
            | Some j =>
                let knee := j + cutoff in
                let cutoff' := (knee + 1) / 2 in
                if (last <? knee) && (2 <? length grad - cutoff')
                then res_cons knee (dfdt_iter grad iso f knee cutoff')
                else Ok [knee]
            end
        end
    end.
  (* knee = cutoff = 0, last_knee = -1: the guard holds initially iff len(x) > 2, and cfd raises below 3 points;
     fuel = n (theorem dfdt_knee_total: never exhausted) *)
  Definition dfdt_knee_res (grad : list (T N)) (iso : nat -> option (T N)) : res :=
    if length grad <? 3 then Exc else dfdt_iter grad iso (length grad) 0 0.
  Definition dfdt_knee (grad : list (T N)) (iso : nat -> option (T N)) : option nat :=
    res_knee (dfdt_knee_res grad iso).

  (* ------------------------------------------------------------------ Menger *)
  (* py: menger.py:54-76 knee.  mc = [menger_curvature(points[i], points[i-1], points[i+1]) for i in 1..n-2] (oracle);
     curvature = [0] + mc + [0]; np.argmax(curvature).  n = length mc + 2 *)
  Definition menger_padded (mc : list (T N)) : list (T N) := zero :: mc ++ [zero].
  Definition menger_knee (mc : list (T N)) : option nat := Some (argmax (menger_padded mc)).

  (* ------------------------------------------------------------------ L-method *)
  (* py: lmethod.py:131-146 get_knee on an array of m points; err i = compute_error(x, y, i, x[-1]-x[0], fit, cost)[0]:
       index = 2; error = err 2
       for i in range(3, m-2): if err i < error: error = err i; index = i *)
  Fixpoint lm_scan_go (err : nat -> oval (T N)) (cands : list nat) (best : T N) (bi : nat) : oval nat :=
    match cands with
    | [] => OVal bi
    | i :: cands' =>
        match err i with
        | OVal e => if e <?! best then lm_scan_go err cands' e i else lm_scan_go err cands' best bi
        | ORaise => ORaise
        | OMissing => OMissing
        end
    end.
  (* m < 3: x[2] (or x[-1] on an empty array) raises IndexError *)
  Definition lm_get_knee (err : nat -> oval (T N)) (m : nat) : oval nat :=
    if m <? 3 then ORaise else
    match err 2 with
    | OVal e => lm_scan_go err (seq 3 (m - 5)) e 2
    | ORaise => ORaise
    | OMissing => OMissing
    end.
End Detectors.

(* py: lmethod.py:165-182 knee.  The while loop entered at its body (the guard current_knee != last_knee holds
   initially: n <> -1): `last` = last_knee after last_knee = current_knee, `cutoff` the current cut-off.
   scan m = get_knee(x[0:cutoff+1], ...) with m = min(cutoff+1, n) points (slice clipping).
     adjusted: cutoff = max(limit, int((current_knee + last_knee)/2.0));           continue while current != last
     original: cutoff = max(limit, min(current_knee*2, n)); done = current >= last; continue while current < last
     none:     done = True *)
Fixpoint lm_iter (scan : nat -> oval nat) (n limit : nat) (it : refinement) (fuel last cutoff : nat) : res :=
  match fuel with
  | O => OutOfFuel
  | S f =>
      match scan (Nat.min (cutoff + 1) n) with
      | ORaise => Exc
      | OMissing => Missing
      | OVal k =>
          match it with
          | RefNone => Ok [k]
          | RefOriginal =>
              if last <=? k then Ok [k]
              else res_cons k (lm_iter scan n limit it f k (Nat.max limit (Nat.min (2 * k) n)))
          | RefAdjusted =>
              if k =? last then Ok [k]
              else res_cons k (lm_iter scan n limit it f k (Nat.max limit ((k + last) / 2)))
          end
      end
  end.
(* last_knee = -1; cutoff = current_knee = len(points): first body entry with last = n, cutoff = n.
   fuel n + 3 (theorems lmethod_refine_*_total: never exhausted) *)
Definition lm_refine (scan : nat -> oval nat) (n limit : nat) (it : refinement) : res :=
  lm_iter scan n limit it (n + 3) n n.

Section LmethodKnee.
  Context {N : Num}.
  (* lerr m i = compute_error(x[0:m], y[0:m], i, x[m-1]-x[0], fit, Cost.rmse)[0]  (knee never forwards `cost`) *)
  Definition lmethod_knee_res (n : nat) (lerr : nat -> nat -> oval (T N)) (it : refinement) (limit : nat) : res :=
    lm_refine (fun m => lm_get_knee (lerr m) m) n limit it.
  Definition lmethod_knee (n : nat) (lerr : nat -> nat -> oval (T N)) (it : refinement) (limit : nat) : option nat :=
    res_knee (lmethod_knee_res n lerr it limit).
End LmethodKnee.

(* generic shape of the DFDT refinement recursion over the successive knees ks (n points) *)
Fixpoint dfdt_chain_b (holds_at : nat -> nat -> bool) (n last cutoff : nat) (ks : list nat) : bool :=
  match ks with
  | [] => false
  | k :: ks' =>
      holds_at cutoff k &&
      let cutoff' := (k + 1) / 2 in
      if (last <? k) && (2 <? n - cutoff')
      then dfdt_chain_b holds_at n k cutoff' ks'
      else match ks' with [] => true | _ => false end
  end.

(* ====================================================================================== *)
(* Specification predicates (boolean; the theorems of Proofs/DetectorsFacts.v are stated with them and
   Run/JudgeC09.v evaluates them on the IMPLEMENTATION's output).  Each returns 0 when it holds and the
   number of the first failing conjunct otherwise. *)
Section Spec.
  Context {N : Num}.
  Local Open Scope Z_scope.

  Definition notnanb (x : T N) : bool := negb (isnan x).

  (* k is np.argmax l: in range; if l holds a NaN, k is the position of the first NaN; otherwise l[k] is
     >= every entry and strictly above every earlier entry *)
  Definition first_argmax_b (l : list (T N)) (k : nat) : bool :=
    (k <? length l)%nat &&
    let v := nth k l zero in
    if existsb isnan l then isnan v && forallb notnanb (firstn k l)
    else forallb (fun x => x <=?! v) l && forallb (fun x => x <?! v) (firstn k l).
  Definition first_argmin_b (l : list (T N)) (k : nat) : bool :=
    (k <? length l)%nat &&
    let v := nth k l zero in
    if existsb isnan l then isnan v && forallb notnanb (firstn k l)
    else forallb (fun x => v <=?! x) l && forallb (fun x => v <?! x) (firstn k l).

  (* curvature.knee returned o on the criterion array curv *)
  Definition curvature_holds (curv : list (T N)) (o : option nat) : Z :=
    match o with
    | None => 1
    | Some k =>
        if negb ((1 <=? k)%nat && (k + 2 <=? length curv)%nat) then 2
        else if negb (first_argmax_b (interior curv) (k - 1)) then 3 else 0
    end.

  (* dfdt.get_knee returned o on gradient grad with ISODATA threshold t *)
  Definition dfdt_get_knee_holds (grad : list (T N)) (t : T N) (o : option nat) : Z :=
    match o with
    | None => 1
    | Some k =>
        if negb ((1 <=? k)%nat && (k + 2 <=? length grad)%nat) then 2
        else if negb (first_argmin_b (interior (dfdt_diff grad t)) (k - 1)) then 3 else 0
    end.

  (* the successive knees ks of dfdt.knee's loop form the stated recursion: each is `holds_at cutoff k`
     (dfdt_at: the interior point of the tail gradient[cutoff:] closest to that tail's ISODATA threshold), the next
     cut-off is ceil(knee/2), the loop goes on exactly while the knee moved right and the next tail keeps more than 2 points *)
  Definition dfdt_at (grad : list (T N)) (iso : nat -> option (T N)) (cutoff k : nat) : bool :=
    match iso cutoff with
    | None => false
    | Some t =>
        (cutoff + 1 <=? k)%nat && (k + 2 <=? length grad)%nat &&
        first_argmin_b (interior (dfdt_diff (skipn cutoff grad) t)) (k - cutoff - 1)
    end.
  (* dfdt.knee: r = the outcome (Ok ks = returned last ks after length ks iterations) *)
  Definition dfdt_knee_holds (grad : list (T N)) (iso : nat -> option (T N)) (r : res) : Z :=
    match r with
    | Ok ks =>
        match res_knee r with
        | None => 1
        | Some k =>
            if negb ((1 <=? k)%nat && (k + 2 <=? length grad)%nat) then 2
            else if negb (length ks <=? length grad)%nat then 3
            else if negb (dfdt_chain_b (dfdt_at grad iso) (length grad) 0 0 ks) then 4
            else if negb (strictly_increasing (removelast ks)) then 5 else 0
        end
    | _ => 1
    end.

  (* menger.knee returned o; n = length mc + 2 points *)
  Definition menger_holds (mc : list (T N)) (o : option nat) : Z :=
    match o with
    | None => 1
    | Some k =>
        if negb (k + 2 <=? length mc + 2)%nat then 2
        else if negb (first_argmax_b (menger_padded mc) k) then 3 else 0
    end.

  (* the split points lmethod.get_knee examines on m points: 2, then 3 .. m-3 *)
  Definition lm_cands (m : nat) : list nat := 2%nat :: seq 3 (m - 5).
  Definition oval_is_val {A} (o : oval A) : bool := match o with OVal _ => true | _ => false end.
  (* k is the first minimum of err over the examined split points (`<` never selects a NaN error; a NaN at the
     first split point is never replaced): all errors are values; if err 2 is NaN then k = 2, otherwise err k is
     not NaN, is <= every non-NaN examined error and strictly below every earlier non-NaN one *)
  Definition lm_first_min_b (err : nat -> oval (T N)) (m k : nat) : bool :=
    (3 <=? m)%nat && existsb (Nat.eqb k) (lm_cands m) && forallb (fun i => oval_is_val (err i)) (lm_cands m) &&
    match err 2%nat, err k with
    | OVal e2, OVal ek =>
        if isnan e2 then (k =? 2)%nat
        else notnanb ek &&
             forallb (fun i => match err i with
                               | OVal e => isnan e || (ek <=?! e) && ((k <=? i)%nat || (ek <?! e))
                               | _ => false end) (lm_cands m)
    | _, _ => false
    end.
  (* lmethod.get_knee returned o on m points *)
  Definition lm_get_knee_holds (err : nat -> oval (T N)) (m : nat) (o : option nat) : Z :=
    match o with
    | None => 1
    | Some k =>
        if negb ((2 <=? k)%nat && (k + 3 <=? m)%nat) then 2
        else if negb (lm_first_min_b err m k) then 3 else 0
    end.
End Spec.

(* the successive knees ks of lmethod.knee's loop follow the refinement rule: each is `holds_at m k` (the scan
   answer on the first m = min(cutoff+1, n) points), cut-offs and the stopping test as in the code *)
Fixpoint lm_chain_b (holds_at : nat -> nat -> bool) (n limit : nat) (it : refinement) (last cutoff : nat) (ks : list nat) : bool :=
  match ks with
  | [] => false
  | k :: ks' =>
      holds_at (Nat.min (cutoff + 1) n) k &&
      match it with
      | RefNone => match ks' with [] => true | _ => false end
      | RefOriginal =>
          if last <=? k then match ks' with [] => true | _ => false end
          else lm_chain_b holds_at n limit it k (Nat.max limit (Nat.min (2 * k) n)) ks'
      | RefAdjusted =>
          if k =? last then match ks' with [] => true | _ => false end
          else lm_chain_b holds_at n limit it k (Nat.max limit ((k + last) / 2)) ks'
      end
  end.
(* iteration bound per refinement option *)
Definition lm_iter_bound (n : nat) (it : refinement) : nat :=
  match it with RefNone => 1 | RefOriginal => n | RefAdjusted => n + 3 end.

Section SpecLm.
  Context {N : Num}.
  Local Open Scope Z_scope.
  (* lmethod.knee on n >= 5 points *)
  Definition lmethod_knee_holds (n : nat) (lerr : nat -> nat -> oval (T N)) (it : refinement) (limit : nat) (r : res) : Z :=
    match r with
    | Ok ks =>
        match res_knee r with
        | None => 1
        | Some k =>
            if negb ((2 <=? k)%nat && (k + 3 <=? n)%nat) then 2
            else if negb (length ks <=? lm_iter_bound n it)%nat then 3
            else if negb (lm_chain_b (fun m k => lm_first_min_b (lerr m) m k) n limit it n n ks) then 4 else 0
        end
    | _ => 1
    end.
End SpecLm.
