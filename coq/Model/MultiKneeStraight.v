(* Model/MultiKneeStraight.v — the straightness that multi_knee.multi_knee computes for points[l:r], DERIVED from the
   points (no oracle): the end-point line of the slice (lf.linear_fit_points) and its SMAPE (lf.smape_points, numba
   left-fold mean) or, for cost = r2, its coefficient of determination (lf.linear_r2_points, NumPy pairwise sums).
   All of it is built from + - * / abs and comparisons, hence bit-reproducible; the definitions are the formula
   layer's (Model/LinearFit.v, Model/Metrics.v).  `knee1` stays the only oracle of the closed model.
   py: multi_knee.py:59-63 *)
From Coq Require Import List Arith Bool.
From Knee Require Import Num NpList Model.Metrics Model.LinearFit Model.MultiKnee.
Import ListNotations.

Section Straight.
  Context {N : Num}.
  Variable eps : T N.                      (* the default eps = 1e-16 of lf.smape_points *)
  Variable P : list (T N * T N).           (* the curve *)

  (* py: multi_knee.py:59-63   coef = lf.linear_fit_points(pt); r = lf.linear_r2_points(pt, coef) if cost is r2
                               else lf.smape_points(pt, coef)      with pt = points[l:r] *)
  Definition mk_straight (cost : mk_cost) (l r : nat) : T N :=
    let pt := slice P l r in
    let c := linear_fit_points pt in
    match cost with
    | MkR2 => linear_r2_points pt c R2classic
    | _ => smape_points pt c eps
    end.

  (* <detector>.multi_knee(points, t1, t2) / multi_knee.multi_knee(get_knee, points, t1, t2, cost) with the
     straightness derived from the points *)
  Definition multi_knee_pts (cost : mk_cost) (knee1 : nat -> nat -> option nat) (t1 : T N) (t2 : nat) :=
    multi_knee cost (mk_straight cost) knee1 t1 t2 (length P).
End Straight.
