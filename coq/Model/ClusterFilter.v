(* Model/ClusterFilter.v — postprocessing.filter_clusters (four ranking modes) and filter_clusters_corners.
   Control-layer model: the cluster labels are an INPUT list (the harness records what the real clustering
   function returned; the clustering model itself belongs to C11), the ranking scores of the left/linear/right
   modes are an oracle (kr.smooth_ranking of the cluster, contains np.corrcoef), the lower hull is an oracle
   index list (convex_hull.graham_scan_lower), the sums of shortest distances of hull mode are an oracle keyed
   by absolute inclusive index ranges, np.argsort is a parameter (`sorter`: any permutation that sorts).
   py: postprocessing.py:130-249 filter_clusters; 252-278 filter_clusters_corners; 464-484 rank_corners_triangle;
       knee_ranking.py:101-127 distance_to_similarity, rank *)
From Coq Require Import List Arith Bool ZArith.
From Knee Require Import Num NpList.
Import ListNotations.
Local Open Scope num_scope.

(* py: knee_ranking.py:29-36 ClusterRanking *)
Inductive fmode := MLeft | MLinear | MRight | MHull.
Definition is_hull (m : fmode) : bool := match m with MHull => true | _ => false end.

(* what one iteration of the per-cluster loop contributes: an exception, `best_knee = None`, or a knee *)
Inductive pick := PErr | PNone | PSome (k : nat).

Definition mem (k : nat) (l : list nat) : bool := existsb (Nat.eqb k) l.

(* py: postprocessing.py:165 knees[clusters == i] *)
Definition members (labels knees : list nat) (i : nat) : list nat :=
  map snd (filter (fun p => fst p =? i) (combine labels knees)).
(* py: postprocessing.py:162 clusters.max() *)
Definition max_label (labels : list nat) : nat := fold_right Nat.max 0 labels.

(* position of the first occurrence (length of the list when absent) *)
Fixpoint index_of (x : nat) (l : list nat) : nat :=
  match l with [] => 0 | y :: l' => if y =? x then 0 else S (index_of x l') end.
(* the cluster a knee belongs to *)
Definition label_of (labels knees : list nat) (k : nat) : nat := nth (index_of k knees) labels 0.

(* py: knee_ranking.py:124-127 rank: temp = argsort; ranks[temp] = arange(len) — the inverse permutation *)
Definition rank_of (perm : list nat) : list nat := map (fun i => index_of i perm) (seq 0 (length perm)).
(* np.argmax on an integer array: index of the first maximum *)
Fixpoint argmax_nat_go (l : list nat) (i best bi : nat) : nat :=
  match l with
  | [] => bi
  | x :: l' => if best <? x then argmax_nat_go l' (S i) x i else argmax_nat_go l' (S i) best bi
  end.
Definition argmax_nat (l : list nat) : nat :=
  match l with [] => 0 | x :: l' => argmax_nat_go l' 1 x 0 end.

(* collect the per-cluster results: py: postprocessing.py:239-240, 249 *)
Fixpoint collect (ps : list pick) : option (list nat) :=
  match ps with
  | [] => Some []
  | PErr :: _ => None
  | PNone :: r => collect r
  | PSome k :: r => option_map (cons k) (collect r)
  end.

Section ClusterFilter.
  Context {N : Num}.
  Variable sorter : list (T N) -> list nat.         (* array.argsort(): some permutation that sorts *)
  Variable score : list nat -> list (T N).          (* kr.smooth_ranking(points, cluster, method) *)
  Variable hull : list nat.                         (* ch.graham_scan_lower(points) *)
  Variable sdist : nat -> nat -> T N.               (* np.sum(lf.shortest_distance_points(points[l:r+1], points[l], points[r])) *)
  Variable xs ys : list (T N).                      (* points[:,0], points[:,1] *)

  Definition xat (i : nat) : T N := nth i xs zero.
  Definition yat (i : nat) : T N := nth i ys zero.

  (* py: postprocessing.py:223-228  rank, then np.argmax of the ranks *)
  Definition pick_index (r : list (T N)) : nat := argmax_nat (rank_of (sorter r)).

  (* py: postprocessing.py:173-174 hull[(hull>=a)*(hull<=b)] *)
  Definition hull_within (a b : nat) : list nat := filter (fun h => (a <=? h) && (h <=? b)) hull.

  (* py: postprocessing.py:180-201 the error of splitting the cluster's neighbourhood at member j;
     lo, hi = max(a-1, 0), min(b+1, len(points)-1)  (nat subtraction is the clamp at 0) *)
  Definition hull_error (a b j : nat) : T N :=
    let lo := a - 1 in
    let hi := Nat.min (b + 1) (length xs - 1) in
    let len := xat hi -! xat lo in
    let length_l := (xat j -! xat lo) /! len in
    let length_r := (xat hi -! xat j) /! len in
    (sdist lo j *! length_l) +! (sdist j hi *! length_r).

  (* Python's builtin max over a float array: keeps the first element unless a later one is greater *)
  Definition py_max_list (l : list (T N)) : T N :=
    match l with [] => zero | v :: l' => fold_left pymax l' v end.

  (* py: postprocessing.py:171-215 *)
  Definition hull_rankings (c : list nat) : option (list (T N)) :=
    let a := hd 0 c in
    let b := last c 0 in
    let hw := hull_within a b in
    match hw with
    | [] => None
    | [_] => Some (map (fun j => if mem j hw then one else zero) c)
    | _ =>
        let raw := map (fun j => if mem j hw then hull_error a b j else neg one) c in
        let mx := np_max raw in                                          (* np.amax *)
        let raw2 := map (fun v => if v <?! zero then mx else v) raw in   (* rankings[rankings<0] = amax *)
        let pm := py_max_list raw2 in                                    (* distance_to_similarity *)
        Some (map (fun v => pm -! v) raw2)
    end.

  (* py: postprocessing.py:164-240 one cluster *)
  Definition cluster_pick (m : fmode) (c : list nat) : pick :=
    match c with
    | [] => PErr                                      (* knees[clusters == i][0] on an empty selection: IndexError *)
    | [k] => if is_hull m then (if mem k hull then PSome k else PNone) else PSome k
    | _ =>
        match (if is_hull m then hull_rankings c else Some (score c)) with
        | None => PNone
        | Some r => match nth_error c (pick_index r) with Some k => PSome k | None => PErr end
        end
    end.

  (* py: postprocessing.py:130-249 *)
  Definition filter_clusters (m : fmode) (labels knees : list nat) : option (list nat) :=
    if length knees <=? 1 then Some knees
    else collect (map (fun i => cluster_pick m (members labels knees i)) (seq 0 (S (max_label labels)))).

  (* py: postprocessing.py:478-482  0.5*((pt[1][0]-pt[0][0])*(pt[1][1]-pt[2][1])) *)
  Definition tri_score (k : nat) : T N :=
    half *! ((xat k -! xat (k - 1)) *! (yat k -! yat (k + 1))).

  (* py: postprocessing.py:271-277 *)
  Definition corner_pick (c : list nat) : pick :=
    match c with
    | [] => PErr                                      (* np.argmax of an empty array: ValueError *)
    | _ => match nth_error c (argmax (map tri_score c)) with Some k => PSome k | None => PErr end
    end.

  (* py: postprocessing.py:252-278 *)
  Definition filter_clusters_corners (labels knees : list nat) : option (list nat) :=
    match knees with
    | [] => None                                      (* clustering / clusters.max() on an empty array raises *)
    | _ => collect (map (fun i => corner_pick (members labels knees i)) (seq 0 (S (max_label labels))))
    end.

  (* ---- the executable instance of `sorter`: a stable argsort, NaN last (NumPy's order) ---- *)
  Definition key_le (a b : T N) : bool :=
    if isnan b then true else if isnan a then false else a <=?! b.
  Definition argsort_stable (l : list (T N)) : list nat :=
    sort_by (fun i j => key_le (nth i l zero) (nth j l zero)) (seq 0 (length l)).
End ClusterFilter.

(* ---- shape of the inputs and the boolean predicates the theorems are stated with ---- *)

(* cluster labels as every linkage function produces them (C11 labels_shape): first 0, steps 0 / +1 *)
Fixpoint steps01 (l : list nat) : bool :=
  match l with
  | a :: ((b :: _) as l') => ((b =? a) || (b =? S a)) && steps01 l'
  | _ => true
  end.
Definition labels_ok (labels knees : list nat) : bool :=
  (length labels =? length knees) && (hd 1 labels =? 0) && steps01 labels.

(* left / linear / right and the corner variant: a strictly increasing subset of the knees whose i-th element
   lies in cluster i, for i = 0 .. max label — i.e. exactly one member of every cluster *)
Definition one_per_cluster_b (labels knees out : list nat) : bool :=
  strictly_increasing out && forallb (fun k => mem k knees) out
  && nat_list_eqb (map (label_of labels knees) out) (seq 0 (S (max_label labels))).

(* number of returned knees that belong to cluster i *)
Definition count_in (labels knees out : list nat) (i : nat) : nat :=
  length (filter (fun k => label_of labels knees k =? i) out).

(* hull mode: strictly increasing subset, at most one per cluster (cluster ids strictly increase along the
   result), and every returned knee's cluster has a lower-hull index inside its index span *)
Definition span_has_hull (hull c : list nat) : bool :=
  existsb (fun h => (hd 0 c <=? h) && (h <=? last c 0)) hull.
Definition hull_ok_b (hull labels knees out : list nat) : bool :=
  strictly_increasing out && forallb (fun k => mem k knees) out
  && strictly_increasing (map (label_of labels knees) out)
  && forallb (fun k => span_has_hull hull (members labels knees (label_of labels knees k))) out.

Section Best.
  Context {N : Num}.
  (* the kept member of every multi-member cluster (resp. of every cluster, corner variant) attains the maximum
     of that cluster's score list; the clause of a cluster whose scores contain a NaN is vacuous *)
  Definition all_notnan (l : list (T N)) : bool := forallb (fun s => negb (isnan s)) l.
  Definition is_max_at (r : list (T N)) (p : nat) : bool :=
    forallb (fun s => s <=?! nth p r zero) r.
  Definition best_b (multi_only : bool) (scoref : list nat -> list (T N)) (labels knees out : list nat) : bool :=
    forallb (fun k =>
      let c := members labels knees (label_of labels knees k) in
      let r := scoref c in
      if (multi_only && (length c <=? 1)) || negb (all_notnan r) then true
      else is_max_at r (index_of k c)) out.
End Best.

(* ---- the ranking score of the left / linear / right modes, DERIVED from its stated definition ----
   "segment fit quality times relative height": the only oracle is the fit quality lf.r2 of a slice of the curve
   (np.corrcoef inside); peak, weights, their normalisation and the product are computed here.
   py: knee_ranking.py:172-236 smooth_ranking *)
Section Smooth.
  Context {N : Num}.
  Variable r2 : nat -> nat -> T N.                  (* lf.r2(x[a:b], y[a:b]) — keyed by the Python slice bounds *)
  Variable ys : list (T N).

  (* py: knee_ranking.py:203-210 *)
  Definition smooth_fit (m : fmode) (j kl k : nat) : T N :=
    match m with
    | MLinear => (r2 j (k + 1) +! r2 k kl) /! two
    | MLeft => r2 j (k + 1)
    | _ => r2 k kl
    end.

  Fixpoint mul_lists (a b : list (T N)) : list (T N) :=
    match a, b with
    | x :: a', y :: b' => (x *! y) :: mul_lists a' b'
    | _, _ => []
    end.

  (* py: knee_ranking.py:196-232  peak = np.max(y[knees]); d = fabs(peak - y[k]); weights / np.sum(weights) when the
     sum is non-zero; rankings = fit * weights *)
  Definition smooth_weights (c : list nat) : list (T N) :=
    let peak := np_max (map (fun k => nth k ys zero) c) in
    let w := map (fun k => abs (peak -! nth k ys zero)) c in
    let s := np_sum w in
    if s =?! zero then w else map (fun d => d /! s) w.
  Definition smooth_score (m : fmode) (c : list nat) : list (T N) :=
    mul_lists (map (smooth_fit m (hd 0 c) (last c 0)) c) (smooth_weights c).
End Smooth.

(* hull mode: the ranking the code sorts, as a score function (empty when the cluster is not ranked) *)
Definition hull_score {N : Num} (hull : list nat) (sdist : nat -> nat -> T N) (xs : list (T N)) (c : list nat) : list (T N) :=
  match hull_rankings hull sdist xs c with Some r => r | None => [] end.
