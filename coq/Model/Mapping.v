(* Model/Mapping.v — rdp.mapping, rdp.compute_removed_points (integers only).
   py: rdp.py:59-94 mapping; rdp.py:177-198 compute_removed_points *)
From Coq Require Import List Arith Bool.
From Knee Require Import NpList.
Import ListNotations.

(* the removed table: one row (left index, number of dropped interior points) per retained segment *)
Definition row := (nat * nat)%type.

(* py: rdp.py:189-198.  len(points[left:right+1]) - 2 with NumPy's slice clipping; n = len(points) *)
Fixpoint compute_removed_go (n lft : nat) (rest : list nat) : list row :=
  match rest with
  | [] => []
  | rgt :: rest' =>
      (lft, (Nat.min (rgt + 1) n - Nat.min lft n) - 2) :: compute_removed_go n rgt rest'
  end.
Definition compute_removed (n : nat) (reduced : list nat) : list row :=
  match reduced with
  | [] => []
  | lft :: rest => compute_removed_go n lft rest
  end.

(* py: rdp.py:86-90  the inner while loop: consume rows whose left index is < value *)
Fixpoint advance (rem : list row) (value count : nat) : list row * nat :=
  match rem with
  | (l, c) :: rem' => if l <? value then advance rem' value (count + c) else (rem, count)
  | [] => ([], count)
  end.
(* py: rdp.py:82-94.  None = IndexError (a position outside the reduced curve) *)
Fixpoint mapping_go (I : list nat) (reduced : list nat) (rem : list row) (count : nat) : option (list nat) :=
  match I with
  | [] => Some []
  | i :: I' =>
      match nth_error reduced i with
      | None => None
      | Some v =>
          let '(rem', c') := advance rem v count in
          option_map (cons (i + c')) (mapping_go I' reduced rem' c')
      end
  end.
(* py: rdp.py:77-80  removed[np.argsort(removed[:, 0])]: the executable model sorts stably; the theorem
   (mapping_unsorted) is stated for every permutation that sorts the left indices *)
Definition sort_rows (rem : list row) : list row :=
  @sort_by row (fun a b => fst a <=? fst b) rem.
Definition mapping (I reduced : list nat) (rem : list row) (sorted : bool) : option (list nat) :=
  mapping_go I reduced (if sorted then rem else sort_rows rem) 0.

(* well-formed reduction of a curve with n points: strictly increasing, from 0 to n-1 *)
Definition WFb (n : nat) (red : list nat) : bool :=
  strictly_increasing red && (hd 1 red =? 0) && (last red 0 =? n - 1) && (2 <=? length red).
(* the table a well-formed reduction determines *)
Fixpoint rows (red : list nat) : list row :=
  match red with
  | a :: ((b :: _) as red') => (a, b - a - 1) :: rows red'
  | _ => []
  end.
Definition row_eqb (a b : row) : bool := (fst a =? fst b) && (snd a =? snd b).
