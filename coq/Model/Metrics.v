(* Model/Metrics.v — kneeliverse.metrics: the numba-jitted regression metrics (formula layer).
   Generic over N : Num.  Inside metrics.py numba compiles np.sum / np.mean to a plain left fold
   (`seq_sum` / `seq_mean`); element-wise array expressions are maps over the zipped vectors.
   py: metrics.py:49-171 *)
From Coq Require Import ZArith List Bool.
From Knee Require Import Num NpList.
Import ListNotations.
Local Open Scope num_scope.

(* py: metrics.py:38-46 class R2 *)
Inductive r2kind := R2classic | R2adjusted.

Section Metrics.
  Context {N : Num}.

  (* element-wise binary array expression  f(y, y_hat)  (equal shapes) *)
  Definition zip_with (f : T N -> T N -> T N) (y yh : list (T N)) : list (T N) :=
    map (fun p => f (fst p) (snd p)) (combine y yh).

  (* (len(y)-1)/(len(y)-2): integer operands, true division *)
  Definition adj_factor (n : nat) : T N := ofZ (Z.of_nat n - 1) /! ofZ (Z.of_nat n - 2).

  (* py: metrics.py:49-76 r2
       y_mean = np.mean(y); rss = np.sum(np.square(y-y_hat)); tss = np.sum(np.square(y-y_mean))
       rv = 1.0 - rss if tss == 0 else 1.0 - (rss/tss)
       if r2 is R2.adjusted: rv = 1.0 - (1.0 - rv)*((len(y)-1)/(len(y)-2))                       *)
  Definition r2 (y yh : list (T N)) (k : r2kind) : T N :=
    let y_mean := seq_mean y in
    let rss := seq_sum (zip_with (fun a b => sq (a -! b)) y yh) in
    let tss := seq_sum (map (fun a => sq (a -! y_mean)) y) in
    let rv := if tss =?! zero then one -! rss else one -! (rss /! tss) in
    match k with
    | R2classic => rv
    | R2adjusted => one -! (one -! rv) *! adj_factor (length y)
    end.

  (* py: metrics.py:79-91 rmse   np.sqrt(np.mean(np.square(y - y_hat))) *)
  Definition rmse (y yh : list (T N)) : T N :=
    sqrt (seq_mean (zip_with (fun a b => sq (a -! b)) y yh)).

  (* py: metrics.py:94-109 rmsle  np.sqrt(np.mean(np.square((np.log(y+1) - np.log(y_hat+1))))) *)
  Definition rmsle (y yh : list (T N)) : T N :=
    sqrt (seq_mean (zip_with (fun a b => sq (ln (a +! one) -! ln (b +! one))) y yh)).

  (* py: metrics.py:112-125 rmspe  np.sqrt(np.mean(np.square((y - y_hat) / (y+eps)))) *)
  Definition rmspe (y yh : list (T N)) (eps : T N) : T N :=
    sqrt (seq_mean (zip_with (fun a b => sq ((a -! b) /! (a +! eps))) y yh)).

  (* py: metrics.py:128-141 rpd    np.mean(np.abs((y - y_hat) / (np.maximum(y, y_hat)+eps))) *)
  Definition rpd (y yh : list (T N)) (eps : T N) : T N :=
    seq_mean (zip_with (fun a b => abs ((a -! b) /! (npmax a b +! eps))) y yh).

  (* py: metrics.py:144-156 residuals  np.sum(np.square((y-y_hat))) *)
  Definition residuals (y yh : list (T N)) : T N :=
    seq_sum (zip_with (fun a b => sq (a -! b)) y yh).

  (* py: metrics.py:159-171 smape  np.mean(2.0 * np.abs(y_hat - y) / (np.abs(y) + np.abs(y_hat) + eps)) *)
  Definition smape (y yh : list (T N)) (eps : T N) : T N :=
    seq_mean (zip_with (fun a b => (two *! abs (b -! a)) /! (abs a +! abs b +! eps)) y yh).
End Metrics.
