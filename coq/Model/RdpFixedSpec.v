(* Model/RdpFixedSpec.v — the boolean predicates properties C05 / C06 are stated with (and that the
   correspondence run evaluates on the IMPLEMENTATION's outputs).  Executable definitions only. *)
From Coq Require Import List Arith Bool.
From Knee Require Import Num NpList Model.Mapping Model.RdpFixed.
Import ListNotations.
Local Open Scope num_scope.

(* consecutive retained indices = the retained segments *)
Fixpoint adj_pairs (l : list nat) : list (nat * nat) :=
  match l with
  | a :: ((b :: _) as l') => (a, b) :: adj_pairs l'
  | _ => []
  end.
(* the segment has at least one interior point *)
Definition wideb (ab : nat * nat) : bool := fst ab + 2 <=? snd ab.

Definition out_t : Type := option (list nat * list row).
Definition out_eqb (a b : out_t) : bool :=
  match a, b with
  | Some (r1, t1), Some (r2, t2) => nat_list_eqb r1 r2 && list_eqb row_eqb t1 t2
  | None, None => true
  | _, _ => false
  end.
Definition red_of (o : out_t) : list nat := match o with Some (r, _) => r | None => [] end.

Section Spec.
  Context {N : Num}.
  Variable n : nat.
  Variable eps : T N.
  Variable dist : nat -> nat -> list (T N).
  Variable prio : nat -> nat -> T N.
  Variable gcost : list nat -> T N.

  (* ---- C05 ---- *)
  (* output k of the chain: returned, well-formed, table = rows, exact size *)
  Definition size_ok (k : nat) (o : out_t) : bool :=
    match o with
    | Some (red, rem) => WFb n red && list_eqb row_eqb rem (rows red) && (length red =? Nat.min (Nat.max k 2) n)
    | None => false
    end.
  (* R' = R with the index a + split_guarded(dist a (b+1)) inserted, (a,b) a retained segment of R with interior points *)
  Definition nested_at (R R' : list nat) (ab : nat * nat) : bool :=
    wideb ab && nat_list_eqb R' (insert_nat (fst ab + split_guarded eps (dist (fst ab) (snd ab + 1))) R).
  Definition split_seg (R R' : list nat) : option (nat * nat) := find (nested_at R R') (adj_pairs R).
  (* no OTHER retained segment with interior points has a larger priority than (a,b) *)
  Definition seg_eqb (a b : nat * nat) : bool := (fst a =? fst b) && (snd a =? snd b).
  Definition greedy_at (R : list nat) (ab : nat * nat) : bool :=
    forallb (fun cd => negb (wideb cd) || seg_eqb cd ab ||
                       (prio (fst cd) (snd cd + 1) <=?! prio (fst ab) (snd ab + 1))) (adj_pairs R).
  (* unless the eps-guard picked the middle: no interior point is farther than the chosen one *)
  Definition farthest_at (ab : nat * nat) : bool :=
    let d := dist (fst ab) (snd ab + 1) in
    all_lt d eps || forallb (fun x => x <=?! nth (split_guarded eps d) d zero) (interior d).
  Definition nonan (l : list (T N)) : bool := forallb (fun x => negb (isnan x)) l.

  (* one refinement step R -> R' of the chain.  0 = fine; 2 = not nested; 3 = not greedy; 4 = not farthest.
     `ordered` = every priority present is non-NaN (Tier O precondition of the greedy clause) *)
  Definition step_code (ordered : bool) (R R' : list nat) : nat :=
    match split_seg R R' with
    | None => 2
    | Some ab =>
        if ordered && negb (greedy_at R ab) then 3
        else if nonan (interior (dist (fst ab) (snd ab + 1))) && negb (farthest_at ab) then 4
        else 0
    end.
  (* the chain outs = [rdp_fixed 0; rdp_fixed 1; ...]: sizes for every k, steps for 2 <= k < n *)
  Fixpoint first_nonzero (l : list nat) : nat :=
    match l with [] => 0 | x :: l' => if x =? 0 then first_nonzero l' else x end.
  Definition sizes_code (outs : list out_t) : nat :=
    first_nonzero (map (fun ko => if size_ok (fst ko) (snd ko) then 0 else 1) (combine (seq 0 (length outs)) outs)).
  Definition steps_code (ordered : bool) (outs : list out_t) : nat :=
    first_nonzero (map (fun k => if (2 <=? k) && (k <? n)
                                 then step_code ordered (red_of (nth k outs None)) (red_of (nth (k + 1) outs None))
                                 else 0) (seq 0 (length outs))).
  Definition chain_code (ordered : bool) (outs : list out_t) : nat :=
    if negb (length outs =? n + 2) then 9
    else match sizes_code outs with
         | 0 => steps_code ordered outs
         | c => c
         end.

  (* ---- C06 ---- *)
  Variable is_r2 : bool.
  (* chain = [S_2; S_3; ...; S_n] (the fixed-size results).  The first member on the accepting side of t,
     else the last one (all points). *)
  Fixpoint first_accepting (t : T N) (chain : list (list nat)) : list nat :=
    match chain with
    | [] => []
    | [R] => R
    | R :: rest => if curved is_r2 t (gcost R) then first_accepting t rest else R
    end.
  (* S_k for any k: clipped to 2..n *)
  Definition chain_at (chain : list (list nat)) (k : nat) : list nat :=
    nth (Nat.min (Nat.max k 2) n - 2) chain [].
  Definition grdp_ok (t : T N) (chain : list (list nat)) (o : out_t) : bool :=
    let R := first_accepting t chain in out_eqb o (Some (R, rows R)).
  Definition mp_grdp_ok (t : T N) (m : nat) (chain : list (list nat)) (o : out_t) : bool :=
    let R := chain_at chain (Nat.max (length (first_accepting t chain)) (Nat.min m n)) in
    out_eqb o (Some (R, rows R)).
  (* thresholds in descending order; the first whose global-RDP result has >= m indices, else S_m *)
  Fixpoint min_point_pick (m : nat) (chain : list (list nat)) (ts : list (T N)) : list nat :=
    match ts with
    | [] => chain_at chain m
    | t :: ts' => let R := first_accepting t chain in
                  if m <=? length R then R else min_point_pick m chain ts'
    end.
  Definition min_point_ok (ts : list (T N)) (m : nat) (chain : list (list nat)) (o : out_t) : bool :=
    let R := min_point_pick m chain (sort_desc ts) in out_eqb o (Some (R, rows R)).
End Spec.
