(* Model/RdpFixed.v — fixed-size / global RDP: rdp._rdp_fixed, rdp_fixed, _grdp, grdp, mp_grdp, min_point_rdp.
   Mirror model: a Python-ordered priority stack (last element = top, `pop()` takes it, stable
   `list.sort(key=...)` after the appends) and a `reduced` index list that is appended to and sorted.
   Every float that steers control flow is an oracle (DESIGN 2.3):
     dist l r   = distance_points(points[l:r], points[l], points[r-1])                (array of r-l doubles)
     prio l r   = order_triangle / order_area / order_segment of the segment points[l:r]
     gcost S    = evaluation.compute_global_cost(points, S, cost)  (fresh cache)
   eps = np.finfo(float).eps.   Integers (indices, lengths, budgets) are nat; Python's `length`/`min_points`
   are non-negative in the properties' domain, and truncated subtraction reproduces `length - 2 <= 0`. *)
From Coq Require Import List Arith Bool.
From Knee Require Import Num NpList Model.Mapping.
Import ListNotations.
Local Open Scope num_scope.

(* list.pop(): (last element, the rest) *)
Fixpoint pop {A} (l : list A) : option (A * list A) :=
  match l with
  | [] => None
  | x :: l' => match pop l' with
               | None => Some (x, [])
               | Some (y, r) => Some (y, x :: r)
               end
  end.

Section RdpFixed.
  Context {N : Num}.
  Variable n : nat.                            (* len(points) *)
  Variable eps : T N.                          (* np.finfo(float).eps *)
  Variable dist : nat -> nat -> list (T N).
  Variable prio : nat -> nat -> T N.
  Variable gcost : list nat -> T N.

  (* a stack entry (cost, left, right) *)
  Definition entry : Type := (T N * (nat * nat))%type.
  (* key=lambda t: t[0] compared with <= : the order the stable sort uses *)
  Definition ele (a b : entry) : bool := fst a <=?! fst b.

  (* py: rdp.py:307-310, 423-426
       if np.all(d < eps): index = int(len(d)/2)  else: index = np.argmax(d[1:-1]) + 1 *)
  Definition split_guarded (d : list (T N)) : nat :=
    if all_lt d eps then length d / 2 else S (argmax (interior d)).

  (* py: rdp.py:299-330 and 416-451 (the two loop bodies are textually the same):
       _, left, right = stack.pop(); pt = points[left:right]; d = distance_points(pt, pt[0], pt[-1]); index = ...
       left_cost, right_cost = order_*(pt, index, ...)
       if (left+index+1) - (left) > 2: stack.append((left_cost, left, left+index+1))
       if (left+len(pt)) - (left+index) > 2: stack.append((right_cost, left+index, left+len(pt)))
       stack.sort(key=lambda t: t[0])
     returns (left+index, new stack); None iff the stack is empty.  len(pt) = right - left (right <= n always). *)
  Definition body (stack : list entry) : option (nat * list entry) :=
    match pop stack with
    | None => None
    | Some ((_, (lft, rgt)), st) =>
        let d := dist lft rgt in
        let index := split_guarded d in
        let len := rgt - lft in
        let new1 := if 2 <? (lft + index + 1) - lft
                    then [(prio lft (lft + index + 1), (lft, lft + index + 1))] else [] in
        let new2 := if 2 <? (lft + len) - (lft + index)
                    then [(prio (lft + index) (lft + len), (lft + index, lft + len))] else [] in
        Some (lft + index, sort_by ele (st ++ new1 ++ new2))
    end.

  Definition nonempty {A} (l : list A) : bool := match l with [] => false | _ => true end.

  (* py: rdp.py:298-334 _rdp_fixed:  while length > 0 and stack: ...; reduced.append(left+index); ...; length -= 1
                                     reduced.sort(); return reduced
     fuel = bound on the number of loop tests; None = fuel exhausted (excluded by rdp_fixed_total) *)
  Fixpoint _rdp_fixed (fuel length : nat) (stack : list entry) (reduced : list nat) : option (list nat) :=
    match fuel with
    | O => None
    | S f =>
        if (0 <? length) && nonempty stack then
          match body stack with
          | None => None
          | Some (g, stack') => _rdp_fixed f (length - 1) stack' (reduced ++ [g])
          end
        else Some (sort_nat reduced)
    end.

  (* py: rdp.py:353-354, 482-483, 523-524 *)
  Definition stack0 : list entry := if 2 <? n then [(zero, (0, n))] else [].
  Definition reduced0 : list nat := [0; n - 1].

  (* py: rdp.py:337-369 rdp_fixed *)
  Definition rdp_fixed (fuel k : nat) : option (list nat * list row) :=
    match _rdp_fixed fuel (k - 2) stack0 reduced0 with
    | None => None
    | Some red => Some (red, compute_removed n red)
    end.

  (* py: rdp.py:411, 434   curved = global_cost < t if cost is r2 else global_cost >= t *)
  Definition curved (is_r2 : bool) (t c : T N) : bool := if is_r2 then c <?! t else t <=?! c.

  (* py: rdp.py:415-458 the while loop of _grdp: `cv` is the current value of `curved` *)
  Fixpoint _grdp_loop (is_r2 : bool) (t : T N) (fuel : nat) (cv : bool) (stack : list entry) (reduced : list nat)
    : option (list nat * list entry) :=
    match fuel with
    | O => None
    | S f =>
        if cv && nonempty stack then
          match body stack with
          | None => None
          | Some (g, stack') =>
              let reduced' := sort_nat (reduced ++ [g]) in            (* reduced.append(...); reduced.sort() *)
              _grdp_loop is_r2 t f (curved is_r2 t (gcost reduced')) stack' reduced'
          end
        else Some (reduced, stack)
    end.
  (* py: rdp.py:387-458 _grdp *)
  Definition _grdp (is_r2 : bool) (t : T N) (fuel : nat) (stack : list entry) (reduced : list nat) :=
    _grdp_loop is_r2 t fuel (curved is_r2 t (gcost reduced)) stack reduced.

  (* py: rdp.py:461-496 grdp *)
  Definition grdp (is_r2 : bool) (t : T N) (fuel : nat) : option (list nat * list row) :=
    match _grdp is_r2 t fuel stack0 reduced0 with
    | None => None
    | Some (red, _) => Some (red, compute_removed n red)
    end.

  (* py: rdp.py:499-544 mp_grdp *)
  Definition mp_grdp (is_r2 : bool) (t : T N) (fuel min_points : nat) : option (list nat * list row) :=
    match _grdp is_r2 t fuel stack0 reduced0 with
    | None => None
    | Some (red, stack) =>
        if min_points <=? length red then Some (red, compute_removed n red)
        else match _rdp_fixed fuel (min_points - length red) stack red with
             | None => None
             | Some red' => Some (red', compute_removed n red')
             end
    end.

  (* sorted(t, reverse=True): stable, descending *)
  Definition sort_desc (ts : list (T N)) : list (T N) := sort_by (fun a b => b <=?! a) ts.

  (* py: rdp.py:566-571  for current_t in sorted(t, reverse=True): ... grdp(points, t=current_t) (default distance,
     cost = smape, order) ...; return rdp_fixed(points, min_points) *)
  Fixpoint min_point_go (fuel min_points : nat) (ts : list (T N)) : option (list nat * list row) :=
    match ts with
    | [] => rdp_fixed fuel min_points
    | t :: ts' =>
        match grdp false t fuel with
        | None => None
        | Some (red, rem) => if min_points <=? length red then Some (red, rem) else min_point_go fuel min_points ts'
        end
    end.
  Definition min_point_rdp (fuel : nat) (ts : list (T N)) (min_points : nat) : option (list nat * list row) :=
    min_point_go fuel min_points (sort_desc ts).
End RdpFixed.

(* ---- the ordering scores, derived from their stated definitions (py: rdp.py:201-275) ----
   rdp.order_triangle: 0.5 * base * height, base = np.linalg.norm(pt[0] - pt[-1]) of the child segment (oracle `chord`:
     BLAS/libm, not bit-reproducible), height = distance_points(child, ...).max() with the CONFIGURED distance (`dist`);
   rdp.order_area: np.sum(distance_points(child, ...)) (NumPy pairwise sum, bit-exact in NpList.v);
   rdp.order_segment: lf.linear_fit_residuals_points(child) (oracle `resid`). *)
Inductive order := OTriangle | OArea | OSegment.
Section Prio.
  Context {N : Num}.
  Variable ord : order.
  Variable chord resid : nat -> nat -> T N.
  Variable dist : nat -> nat -> list (T N).
  Definition prio_derived (l r : nat) : T N :=
    match ord with
    | OTriangle => half *! chord l r *! np_max (dist l r)
    | OArea => np_sum (dist l r)
    | OSegment => resid l r
    end.
End Prio.
