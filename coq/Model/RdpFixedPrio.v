(* Model/RdpFixedPrio.v — the segment-order score derived from the formula layer: rdp.order_segment's cost of a child
   segment points[l:r] is lf.linear_fit_residuals_points(points[l:r]) = metrics.residuals(y, end-point fit) — built from
   + - * / and a left-fold sum only, hence bit-reproducible (Model/LinearFit.v, Model/Metrics.v).
   py: rdp.py:258-275 order_segment; linear_fit.py:428-438 linear_fit_residuals(_points). *)
From Coq Require Import List Arith.
From Knee Require Import Num NpList Model.Metrics Model.LinearFit Model.RdpFixed.
Import ListNotations.

Section ResidPts.
  Context {N : Num}.
  Variable pts : list (@pt N).                  (* the curve *)
  (* points[l:r] *)
  Definition resid_pts (l r : nat) : T N := linear_fit_residuals_points (slice pts l r).
  (* all three ordering scores with the residual computed in-model: the only oracles left are the configured distance
     table and the chord norm *)
  Definition prio_closed (ord : order) (chord : nat -> nat -> T N) (dist : nat -> nat -> list (T N)) : nat -> nat -> T N :=
    prio_derived ord chord resid_pts dist.
End ResidPts.
