(* Model/LinearFit.v — kneeliverse.linear_fit (formula layer), as repaired in /repo
   (D4: cross2d instead of np.cross; D5: no `left +`; D15: element-wise projection; rmspe passes eps on).
   Generic over N : Num.  linear_fit.py is NOT jitted: np.sum / np.mean there are NumPy's pairwise
   `np_sum` / `np_mean`; the metrics it delegates to are the numba ones of Model/Metrics.v.
   Modelled by closed forms (compared under tolerance only, never bit-for-bit):
   np.linalg.norm of a 2-vector := sqrt(x*x + y*y); np.hypot(h, c) := sqrt(h*h + c*c);
   np.corrcoef := the covariance / standard-deviation quotient NumPy evaluates, dots as left folds,
   without the final clip to [-1, 1] (the identity on reals by Cauchy-Schwarz); `** 2.0` := x*x. *)
From Coq Require Import ZArith List Bool.
From Knee Require Import Num NpList Model.Metrics.
Import ListNotations.
Local Open Scope num_scope.

Section LinearFit.
  Context {N : Num}.

  Definition pt : Type := (T N * T N)%type.
  Definition px (p : pt) : T N := fst p.
  Definition py (p : pt) : T N := snd p.
  Definition xs (P : list pt) : list (T N) := map fst P.     (* points[:, 0] *)
  Definition ys (P : list pt) : list (T N) := map snd P.     (* points[:, 1] *)
  Definition coef : Type := (T N * T N)%type.                (* (b, m) *)

  (* py: linear_fit.py:51-72 linear_fit — the END-POINT fit through (x[0],y[0]) and (x[-1],y[-1]):
       d = x[0] - x[-1]
       if d != 0: m = (y[0] - y[-1])/(x[0] - x[-1]); b = y[0] - (m*x[0]); return (b, m)
       else: return (0, 0)                                                                      *)
  Definition linear_fit (x y : list (T N)) : coef :=
    let d := hd zero x -! last x zero in
    if d =?! zero then (zero, zero)
    else
      let m := (hd zero y -! last y zero) /! (hd zero x -! last x zero) in
      let b := hd zero y -! (m *! hd zero x) in
      (b, m).
  (* py: linear_fit.py:32-47 linear_fit_points *)
  Definition linear_fit_points (P : list pt) : coef := linear_fit (xs P) (ys P).

  (* py: linear_fit.py:91-104 linear_transform   y_hat = x * m + b *)
  Definition linear_transform (x : list (T N)) (c : coef) : list (T N) :=
    let '(b, m) := c in map (fun xi => xi *! m +! b) x.
  (* py: linear_fit.py:75-87 linear_transform_points *)
  Definition linear_transform_points (P : list pt) (c : coef) : list (T N) := linear_transform (xs P) c.

  (* py: linear_fit.py:215-242 linear_r2 — same formula as metrics.r2 but with NumPy's np.mean / np.sum *)
  Definition linear_r2 (x y : list (T N)) (c : coef) (k : r2kind) : T N :=
    let yh := linear_transform x c in
    let y_mean := np_mean y in
    let rss := np_sum (zip_with (fun a b => sq (a -! b)) y yh) in
    let tss := np_sum (map (fun a => sq (a -! y_mean)) y) in
    let rv := if tss =?! zero then one -! rss else one -! (rss /! tss) in
    match k with
    | R2classic => rv
    | R2adjusted => one -! (one -! rv) *! adj_factor (length x)
    end.
  (* py: linear_fit.py:197-211 linear_r2_points *)
  Definition linear_r2_points (P : list pt) (c : coef) (k : r2kind) : T N := linear_r2 (xs P) (ys P) c k.

  (* py: linear_fit.py:263-277 rmspe   metrics.rmspe(y, y_hat, eps)  (eps passed on since the fix 23fe66a) *)
  Definition lf_rmspe (x y : list (T N)) (c : coef) (eps : T N) : T N :=
    rmspe y (linear_transform x c) eps.
  (* py: linear_fit.py:300-316 rmsle *)
  Definition lf_rmsle (x y : list (T N)) (c : coef) : T N := rmsle y (linear_transform x c).
  (* py: linear_fit.py:325-327 smape *)
  Definition lf_smape (x y : list (T N)) (c : coef) (eps : T N) : T N := smape y (linear_transform x c) eps.
  (* py: linear_fit.py:347-361 rpd *)
  Definition lf_rpd (x y : list (T N)) (c : coef) (eps : T N) : T N := rpd y (linear_transform x c) eps.
  (* py: linear_fit.py:380-393 rmse *)
  Definition lf_rmse (x y : list (T N)) (c : coef) : T N := rmse y (linear_transform x c).
  (* py: linear_fit.py:412-425 linear_residuals *)
  Definition linear_residuals (x y : list (T N)) (c : coef) : T N := residuals y (linear_transform x c).
  (* py: linear_fit.py:435-438 linear_fit_residuals *)
  Definition linear_fit_residuals (x y : list (T N)) : T N :=
    residuals y (linear_transform x (linear_fit x y)).
  (* py: linear_fit.py:245-259, 280-296, 319-322, 330-344, 364-377, 396-409, 428-431  the *_points wrappers *)
  Definition rmspe_points (P : list pt) c eps := lf_rmspe (xs P) (ys P) c eps.
  Definition rmsle_points (P : list pt) c := lf_rmsle (xs P) (ys P) c.
  Definition smape_points (P : list pt) c eps := lf_smape (xs P) (ys P) c eps.
  Definition rpd_points (P : list pt) c eps := lf_rpd (xs P) (ys P) c eps.
  Definition rmse_points (P : list pt) c := lf_rmse (xs P) (ys P) c.
  Definition linear_residuals_points (P : list pt) c := linear_residuals (xs P) (ys P) c.
  Definition linear_fit_residuals_points (P : list pt) := linear_fit_residuals (xs P) (ys P).

  (* np.corrcoef(x, y)[0, 1]:  X -= X.mean(axis=1); c = dot(X, X.T) * (1/(n-1));
     c /= sqrt(diag c)[:, None]; c /= sqrt(diag c)[None, :]   (closed form, see header) *)
  Definition dot (u v : list (T N)) : T N := seq_sum (zip_with (fun a b => a *! b) u v).
  Definition pearson (x y : list (T N)) : T N :=
    let mx := np_mean x in
    let my := np_mean y in
    let dx := map (fun a => a -! mx) x in
    let dy := map (fun a => a -! my) y in
    let f := one /! ofZ (Z.of_nat (length x) - 1) in
    let cxx := dot dx dx *! f in
    let cyy := dot dy dy *! f in
    let cxy := dot dx dy *! f in
    (cxy /! sqrt cxx) /! sqrt cyy.

  (* py: linear_fit.py:464-487 r2 — best-fit R2 as the squared correlation coefficient
       rv = 1.0 if len(x) <= 2 else (np.corrcoef(x, y)[0, 1])**2.0
       if t is adjusted: rv = 1.0 - (1-rv)*((len(x)-1)/(len(x)-2))                              *)
  Definition bestfit_r2 (x y : list (T N)) (k : r2kind) : T N :=
    let rv := if Nat.leb (length x) 2 then one else sq (pearson x y) in
    match k with
    | R2classic => rv
    | R2adjusted => one -! (one -! rv) *! adj_factor (length x)
    end.
  (* py: linear_fit.py:441-460 r2_points   (1.0 when len(points) <= 2, whatever t is) *)
  Definition r2_points (P : list pt) (k : r2kind) : T N :=
    if Nat.leb (length P) 2 then one else bestfit_r2 (xs P) (ys P) k.

  (* the least-squares line by the normal equations (specification only: the package has no such
     function; used to state  pearson^2 = 1 - RSS_lsq / TSS) *)
  Definition lsq_fit (x y : list (T N)) : coef :=
    let mx := np_mean x in
    let my := np_mean y in
    let dx := map (fun a => a -! mx) x in
    let dy := map (fun a => a -! my) y in
    let m := dot dx dy /! dot dx dx in
    (my -! m *! mx, m).

  (* py: linear_fit.py:506-507 cross2d   x[...,0]*y[...,1] - x[...,1]*y[...,0] *)
  Definition cross2d (u v : pt) : T N := px u *! py v -! py u *! px v.
  Definition psub (p q : pt) : pt := (px p -! px q, py p -! py q).
  (* np.linalg.norm of one 2-vector (closed form) *)
  Definition norm2 (v : pt) : T N := sqrt (px v *! px v +! py v *! py v).
  (* np.hypot (closed form) *)
  Definition hypot (h c : T N) : T N := sqrt (h *! h +! c *! c).

  (* py: linear_fit.py:510-544 shortest_distance_points, one row of p:
       if np.all(a == b): return np.linalg.norm(p - a, axis=1)
       d = (b - a) / norm(b - a)
       s = (a - p)[:,0]*d[0] + (a - p)[:,1]*d[1];  t = (p - b)[:,0]*d[0] + (p - b)[:,1]*d[1]
       h = np.maximum.reduce([s, t, zeros]);  c = cross2d(p - a, d);  return np.hypot(h, c)      *)
  Definition shortest_one (a b p : pt) : T N :=
    if (px a =?! px b) && (py a =?! py b) then norm2 (psub p a)
    else
      let ba := psub b a in
      let nrm := norm2 ba in
      let d : pt := (px ba /! nrm, py ba /! nrm) in
      let ap := psub a p in
      let pb := psub p b in
      let s := px ap *! px d +! py ap *! py d in
      let t := px pb *! px d +! py pb *! py d in
      let h := npmax (npmax s t) zero in
      let c := cross2d (psub p a) d in
      hypot h c.
  Definition shortest_distance_points (P : list pt) (a b : pt) : list (T N) := map (shortest_one a b) P.

  (* py: linear_fit.py:581-594 perpendicular_distance_points
       np.fabs(cross2d(end-start, pt-start)/np.linalg.norm(end-start))                          *)
  Definition perp_one (a b p : pt) : T N :=
    abs (cross2d (psub b a) (psub p a) /! norm2 (psub b a)).
  Definition perpendicular_distance_points (P : list pt) (a b : pt) : list (T N) := map (perp_one a b) P.
  (* py: linear_fit.py:564-577 perpendicular_distance_index
       perpendicular_distance_points(points[left:right+1], points[left], points[right])         *)
  Definition pzero : pt := (zero, zero).
  Definition perpendicular_distance_index (P : list pt) (lft rgt : nat) : list (T N) :=
    perpendicular_distance_points (slice P lft (rgt + 1)) (nth lft P pzero) (nth rgt P pzero).
  (* py: linear_fit.py:548-560 perpendicular_distance *)
  Definition perpendicular_distance (P : list pt) : list (T N) :=
    perpendicular_distance_index P 0 (length P - 1).
End LinearFit.
