(* Model/Zmethod.v — zmethod.getPoints (main loop + final sweep), zmethod.map_index, zmethod.knees.
   py: zmethod.py:45-57 map_index; zmethod.py:134-152 knees; zmethod.py:155-288 getPoints.

   The z-score array (uts.gradient.csd + uts.zscore.zscore_array) is an ORACLE: it enters as the third
   component of every row.  Everything else (band tests, group gaps, widths, the threshold schedule) is
   computed here with the operations of `N`, exactly the expressions of the Python source.

   The order in which the candidate outliers of one round are processed (py: line 251, np.argsort, which is
   unstable on ties on this machine) is the parameter `ord : round -> candidates -> candidates` of `loop`;
   the theorems quantify over every `ord` that returns a permutation of its argument.  `explore` is the
   executable set-valued version: it branches over the permutations of candidates with EQUAL keys only. *)
From Coq Require Import ZArith List Bool Arith.
From Knee Require Import Num NpList.
Import ListNotations.
Local Open Scope num_scope.

Inductive zres (A : Type) :=
  | RFuel                                  (* fuel exhausted (excluded by z_total) *)
  | RErr                                   (* the Python code raises *)
  | RDone (a : A) (rounds : nat).          (* value and number of executions of the while body *)
Arguments RFuel {A}. Arguments RErr {A}. Arguments RDone {A}.

Fixpoint all_some {A} (l : list (option A)) : option (list A) :=
  match l with
  | [] => Some []
  | None :: _ => None
  | Some a :: l' => match all_some l' with Some r => Some (a :: r) | None => None end
  end.

(* all permutations of a list (used only on blocks of tied candidates) *)
Fixpoint ins_all {A} (a : A) (l : list A) : list (list A) :=
  match l with
  | [] => [[a]]
  | b :: l' => (a :: l) :: map (cons b) (ins_all a l')
  end.
Fixpoint perms {A} (l : list A) : list (list A) :=
  match l with
  | [] => [[]]
  | a :: l' => flat_map (ins_all a) (perms l')
  end.
Definition fact_cap (n : nat) : nat :=
  match n with 0 | 1 => 1 | 2 => 2 | 3 => 6 | 4 => 24 | _ => 65 end.
Definition cap : nat := 64.
(* run f on every element, concatenating; None as soon as a sub-run is None or more than `cap` results exist *)
Fixpoint collect {A B} (f : A -> option (list B)) (l : list A) (acc : list B) : option (list B) :=
  match l with
  | [] => Some acc
  | a :: l' =>
      match f a with
      | None => None
      | Some rs => if cap <? length acc + length rs then None else collect f l' (acc ++ rs)
      end
  end.

Section Zmethod.
  Context {N : Num}.

  Definition pt := (T N * T N)%type.            (* (x, y) *)
  Definition row := (pt * T N)%type.            (* ((x, y), z): a row of the stacked array, py: line 203 *)
  Definition xy (r : row) : pt := fst r.
  Definition rx (r : row) : T N := fst (fst r).
  Definition ry (r : row) : T N := snd (fst r).
  Definition rz (r : row) : T N := snd r.
  Definition row0 : row := ((zero, zero), zero).

  (* py: 230-231 / 255-256: the np.where mask of one selected outlier o = (ox, oy) applied to the point p *)
  Definition keepx (w : T N) (ox x : T N) : bool := (x <=?! ox -! w) || (ox +! w <=?! x).
  Definition keepy (h : T N) (oy y : T N) : bool := (y <=?! oy -! h) || (oy +! h <=?! y).
  Definition keep (w h : T N) (o p : pt) : bool := keepx w (fst o) (fst p) && keepy h (snd o) (snd p).
  (* py: 228 / 253: all(abs(outlier_best[1]-i) >= y_height for i in outlier_points[:,1]) *)
  Definition ysep (h : T N) (y oy : T N) : bool := h <=?! abs (y -! oy).
  Definition ytest (h : T N) (y : T N) (outs : list pt) : bool := forallb (fun o => ysep h y (snd o)) outs.

  (* py: 228-232 / 253-257: one candidate outlier c is tested and, if accepted, appended and its bands removed *)
  Definition sel_state := (list row * list pt * nat)%type.
  Definition select (w h : T N) (st : sel_state) (c : row) : sel_state :=
    let '(pts, outs, added) := st in
    if ytest h (ry c) outs
    then (filter (fun r => keep w h (xy c) (xy r)) pts, outs ++ [xy c], S added)
    else st.

  (* py: 224: np.argwhere(np.diff(candidates, axis=0)[:,0] >= x_width).flatten() *)
  Fixpoint gaps_go (w : T N) (i : nat) (cs : list row) : list nat :=
    match cs with
    | a :: ((b :: _) as cs') =>
        if w <=?! (rx b -! rx a) then i :: gaps_go w (S i) cs' else gaps_go w (S i) cs'
    | _ => []
    end.
  Definition gaps (w : T N) (cs : list row) : list nat := gaps_go w 0 cs.
  Definition xat (cs : list row) (i : nat) : T N := rx (nth i cs row0).

  (* py: 240-243: x_range for the pair (x_diff[i], x_diff[i+1]); `first` is i == 0 *)
  Definition grp (cs : list row) (first : bool) (p : nat * nat) : list row :=
    filter (fun r => (first || (xat cs (fst p) <?! rx r)) && (rx r <=?! xat cs (snd p))) cs.
  (* py: 235, 238: x_diff = [0] ++ gaps ++ [len-1]; the loop visits the pairs (x_diff[i], x_diff[i+1]) *)
  Fixpoint pairs_from (lo : nat) (rest : list nat) : list (nat * nat) :=
    match rest with
    | [] => []
    | hi :: rest' => (lo, hi) :: pairs_from hi rest'
    end.
  (* py: 240: `if i == 0` *)
  Definition flag_first {A} (l : list A) : list (bool * A) :=
    match l with [] => [] | a :: l' => (true, a) :: map (pair false) l' end.
  (* py: 245-247: row of lowest y, its z replaced by the lowest z of the group; np.argmin of an empty array raises *)
  Definition best_of (g : list row) : option row :=
    match g with
    | [] => None
    | _ => Some (xy (nth (argmin (map ry g)) g row0), rz (nth (argmin (map rz g)) g row0))
    end.
  Definition group_best (cs : list row) (fp : bool * (nat * nat)) : option row :=
    best_of (grp cs (fst fp) (snd fp)).
  (* py: 224-248: the candidate outliers of a round, before sorting (cs non-empty) *)
  Definition cand_outliers (w : T N) (cs : list row) : option (list row) :=
    match gaps w cs with
    | [] => Some [nth (argmin (map ry cs)) cs row0]
    | gs => all_some (map (group_best cs) (flag_first (pairs_from 0 (gs ++ [length cs - 1]))))
    end.
  (* py: 217, 223: candidates = points[points[:,2] >= outlier_z]; nothing to do when there is none *)
  Definition round_cands (w thr : T N) (pts : list row) : option (list row) :=
    match filter (fun r => thr <=?! rz r) pts with
    | [] => Some []
    | cs => cand_outliers w cs
    end.

  Section Loop.
    Variables (w h dz minz : T N).

    (* py: 252-261: process the ordered candidate outliers, then the terminating conditions *)
    Definition step (thr : T N) (j : nat) (pts : list row) (outs : list pt) (ol : list row)
      : zres (list row * list pt) + (list row * list pt) :=
      let '(pts', outs', added) := fold_left (select w h) ol (pts, outs, 0) in
      if (length pts' =? 0) || ((thr <=?! minz) && (added =? 0))
      then inl (RDone (pts', outs') (S j)) else inr (pts', outs').

    (* py: 214-263 for one processing order `ord` (round number -> candidate outliers -> the order they are processed in) *)
    Fixpoint loop (ord : nat -> list row -> list row) (fuel j : nat) (thr : T N) (pts : list row) (outs : list pt)
      : zres (list row * list pt) :=
      match fuel with
      | O => RFuel
      | S f =>
          match round_cands w thr pts with
          | None => RErr
          | Some cos =>
              match step thr j pts outs (ord j cos) with
              | inl r => r
              | inr (pts', outs') => loop ord f (S j) (thr -! dz) pts' outs'
              end
          end
      end.

    (* py: 251: candidate_outliers[np.argsort(candidate_outliers[:,2])][::-1].  A processing order is a list of
       positions; applied to a list of another length (or if it is not a permutation of the positions) it is the identity,
       so that `apply_perm pi` is a permutation of every list. *)
    Definition apply_perm (pi : list nat) (l : list row) : list row :=
      if nat_list_eqb (sort_nat pi) (seq 0 (length l)) then map (fun i => nth i l row0) pi else l.
    Definition key_ix (l : list row) (i : nat) : T N := rz (nth i l row0).
    (* ONE of the admissible orders: stable ascending sort of the positions by key, reversed *)
    Definition ord_stable_ix (l : list row) : list nat :=
      rev (sort_by (fun a b : nat => key_ix l a <=?! key_ix l b) (seq 0 (length l))).
    (* maximal runs of equal keys in a sorted list of positions *)
    Fixpoint blocks (key : nat -> T N) (l : list nat) : list (list nat) :=
      match l with
      | [] => []
      | a :: l' =>
          match blocks key l' with
          | (b :: B) :: Bs => if key a =?! key b then (a :: b :: B) :: Bs else [a] :: (b :: B) :: Bs
          | Bs => [a] :: Bs
          end
      end.
    (* every order that sorts the keys: permute inside the blocks of ties; None if there are more than `cap` *)
    Definition tie_orders (l : list row) : option (list (list nat)) :=
      let bs := blocks (key_ix l) (ord_stable_ix l) in
      let cnt := fold_left (fun c B => Nat.min 65 (c * fact_cap (length B))) bs 1 in
      if cap <? cnt then None
      else Some (fold_right (fun B acc => flat_map (fun p => map (app p) acc) (perms B)) [[]] bs).
    Definition ord_stable (j : nat) (l : list row) : list row := apply_perm (ord_stable_ix l) l.

    (* the results reachable under all orders of tied candidates; None = more than `cap` of them *)
    Fixpoint explore (fuel j : nat) (thr : T N) (pts : list row) (outs : list pt)
      : option (list (zres (list row * list pt))) :=
      match fuel with
      | O => Some [RFuel]
      | S f =>
          match round_cands w thr pts with
          | None => Some [RErr]
          | Some cos =>
              match tie_orders cos with
              | None => None
              | Some pis =>
                  collect (fun pi => match step thr j pts outs (apply_perm pi cos) with
                                     | inl r => Some [r]
                                     | inr (pts', outs') => explore f (S j) (thr -! dz) pts' outs'
                                     end) pis []
              end
          end
      end.
  End Loop.

  (* py: 274-281 + 286: dict {int(x): y} (later entries overwrite), sorted keys — kept as a key-sorted association list *)
  Fixpoint dins (k : Z) (y : T N) (d : list (Z * T N)) : list (Z * T N) :=
    match d with
    | [] => [(k, y)]
    | (k', y') :: d' =>
        if (k <? k')%Z then (k, y) :: d
        else if (k =? k')%Z then (k, y) :: d'
        else (k', y') :: dins k y d'
    end.
  Fixpoint mkdict (outs : list pt) (d : list (Z * T N)) : option (list (Z * T N)) :=
    match outs with
    | [] => Some d
    | o :: outs' => match truncZ (fst o) with None => None | Some k => mkdict outs' (dins k (snd o) d) end
    end.
  (* py: 270, 277-281: the running minimum sweep over ascending keys *)
  Fixpoint sweep (m : T N) (d : list (Z * T N)) : list (Z * T N) :=
    match d with
    | [] => []
    | (k, y) :: d' => if m <?! y then sweep m d' else (k, y) :: sweep y d'
    end.
  Definition finish (outs : list pt) : option (list (Z * T N)) :=
    match mkdict outs [] with None => None | Some d => Some (sweep one d) end.

  (* py: 173, 188: x_width = max(1, int(x_max * dx)), x_max defaulting to len(points) when None or 0 *)
  Definition x_width (n : nat) (xmax : option Z) (dx : T N) : option Z :=
    let xm := match xmax with Some m => if (m =? 0)%Z then Z.of_nat n else m | None => Z.of_nat n end in
    match truncZ (ofZ xm *! dx) with Some k => Some (Z.max 1 k) | None => None end.
  (* py: 174-177 *)
  Definition y_bounds (ys : list (T N)) (yr : option (T N * T N)) : T N * T N :=
    match yr with Some p => p | None => (np_max ys, np_min ys) end.
  (* py: 198: Python's min() over the z-scores *)
  Definition py_min (l : list (T N)) : T N :=
    match l with [] => zero | a :: l' => fold_left pymin l' a end.
  (* the threshold of round j: py: 212, 263 *)
  Fixpoint sched (dz : T N) (j : nat) : T N :=
    match j with O => ofZ 3 | S j' => sched dz j' -! dz end.

  Record zparams := mkZP { zp_w : T N; zp_h : T N; zp_minz : T N }.
  (* py: 173-198; None = the early `return []` (fewer than 4 points, or y_min == 1); inner None = int() raises *)
  Definition params (rows : list row) (dx dy : T N) (xmax : option Z) (yr : option (T N * T N))
    : option (option zparams) :=
    let n := length rows in
    let '(ymax, ymin) := y_bounds (map ry rows) yr in
    if n <? 4 then None
    else if ymin =?! one then None
    else Some (match x_width n xmax dx with
               | None => None
               | Some wz => Some (mkZP (ofZ wz) ((ymax -! ymin) *! dy) (py_min (map rz rows)))
               end).

  Definition finish_res (r : zres (list row * list pt)) : zres (list (Z * T N)) :=
    match r with
    | RFuel => RFuel
    | RErr => RErr
    | RDone st rounds => match finish (snd st) with None => RErr | Some d => RDone d rounds end
    end.

  (* py: 155-286 getPoints(points, dx, dy, dz, False, x_max, y_range): the surviving (key, height) pairs, ascending keys *)
  Definition getPoints (ord : nat -> list row -> list row) (fuel : nat) (rows : list row) (dx dy dz : T N)
      (xmax : option Z) (yr : option (T N * T N)) : zres (list (Z * T N)) :=
    match params rows dx dy xmax yr with
    | None => RDone [] 0
    | Some None => RErr
    | Some (Some p) => finish_res (loop (zp_w p) (zp_h p) dz (zp_minz p) ord fuel 0 (ofZ 3) rows [])
    end.

  (* py: 45-57 map_index(a, b) for an ascending `a` (argsort is then the identity and searchsorted(side='left')
     is the first position whose element is not below the key); None = IndexError (position len(a)) *)
  Fixpoint search (xs : list (T N)) (i : nat) (v : T N) : option nat :=
    match xs with
    | [] => None
    | x :: xs' => if x <?! v then search xs' (S i) v else Some i
    end.
  Definition map_index (xs : list (T N)) (keys : list Z) : option (list nat) :=
    all_some (map (fun k => search xs 0 (ofZ k)) keys).

  (* py: 134-152 knees *)
  Definition knees_of (rows : list row) (r : zres (list (Z * T N))) : zres (list nat) :=
    match r with
    | RFuel => RFuel
    | RErr => RErr
    | RDone d rounds => match map_index (map rx rows) (map fst d) with None => RErr | Some ix => RDone ix rounds end
    end.
  Definition knees (ord : nat -> list row -> list row) (fuel : nat) (rows : list row) (dx dy dz : T N)
      (xmax : option Z) (yr : option (T N * T N)) : zres (list nat) :=
    knees_of rows (getPoints ord fuel rows dx dy dz xmax yr).

  (* the set of results of `knees` reachable under the orders of tied candidates *)
  Definition knees_set (fuel : nat) (rows : list row) (dx dy dz : T N)
      (xmax : option Z) (yr : option (T N * T N)) : option (list (zres (list nat))) :=
    match params rows dx dy xmax yr with
    | None => Some [RDone [] 0]
    | Some None => Some [RErr]
    | Some (Some p) =>
        match explore (zp_w p) (zp_h p) dz (zp_minz p) fuel 0 (ofZ 3) rows [] with
        | None => None
        | Some rs => Some (map (fun r => knees_of rows (finish_res r)) rs)
        end
    end.

  (* ---- the two boolean preconditions of z_total, evaluated on every case ---- *)
  (* (i) the schedule is at or below the minimum z-score from step K up to step K + m *)
  Definition sched_ok (dz minz : T N) (K m : nat) : bool :=
    forallb (fun j => sched dz j <=?! minz) (seq K (S m)).
  (* (ii) no point survives its own band filter *)
  Definition self_removed (w h : T N) (rows : list row) : bool :=
    forallb (fun r => negb (keep w h (xy r) (xy r))) rows.
  (* first K <= fuel at which the schedule is at or below minz *)
  Fixpoint find_K (dz minz : T N) (fuel : nat) (j : nat) (thr : T N) : option nat :=
    if thr <=?! minz then Some j else
    match fuel with O => None | S f => find_K dz minz f (S j) (thr -! dz) end.

  (* ---- the predicate of the property, on an output `ix` of knees for the curve (xs, ys) ---- *)
  Definition yat (ys : list (T N)) (i : nat) : T N := nth i ys zero.
  Fixpoint pairwise {A} (R : A -> A -> bool) (l : list A) : bool :=
    match l with [] => true | a :: l' => forallb (R a) l' && pairwise R l' end.
  Definition valid_ix (n : nat) (ix : list nat) : bool :=
    strictly_increasing ix && forallb (fun i => i <? n) ix.
  (* heights non-increasing from left to right (and none above the sweep's start value 1.0) *)
  Definition heights_ok (ys : list (T N)) (ix : list nat) : bool :=
    forallb (fun i => negb (one <?! yat ys i)) ix
    && pairwise (fun a b => negb (yat ys a <?! yat ys b)) ix.
  Definition xsep_ok (w : T N) (xs : list (T N)) (ix : list nat) : bool :=
    pairwise (fun a b => w <=?! abs (yat xs b -! yat xs a)) ix.
  Definition ysep_ok (h : T N) (ys : list (T N)) (ix : list nat) : bool :=
    pairwise (fun a b => ysep h (yat ys a) (yat ys b) || ysep h (yat ys b) (yat ys a)) ix.
End Zmethod.
