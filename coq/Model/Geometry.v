(* Model/Geometry.v — geometric and ranking primitives (formula layer), generic over N : Num.
   knee_ranking.rect / rect_overlap / distances / distance_to_similarity / rank,
   menger.menger_curvature (as repaired, D8), postprocessing.triangle_area, convex_hull._ccw.
   `** 2.0` and np.power(., 2) are modelled as x*x. *)
From Coq Require Import ZArith List Bool Arith.
From Knee Require Import Num NpList.
Import ListNotations.
Local Open Scope num_scope.

Section Geometry.
  Context {N : Num}.

  Definition gpt : Type := (T N * T N)%type.

  (* py: knee_ranking.py:42-53 distances   np.sqrt(np.sum(np.power(points - point, 2), axis=1)) *)
  Definition dist_one (q p : gpt) : T N :=
    sqrt (sq (fst p -! fst q) +! sq (snd p -! snd q)).
  Definition distances (q : gpt) (P : list gpt) : list (T N) := map (dist_one q) P.

  (* py: knee_ranking.py:85-98 rect   (Python's built-in min / max on the coordinates) *)
  Definition rect (p1 p2 : gpt) : gpt * gpt :=
    ((pymin (fst p1) (fst p2), pymin (snd p1) (snd p2)),
     (pymax (fst p1) (fst p2), pymax (snd p1) (snd p2))).

  (* py: knee_ranking.py:56-82 rect_overlap
       dx = max(0.0, min(amax[0], bmax[0]) - max(amin[0], bmin[0])); dy likewise
       overlap = dx * dy
       if overlap > 0.0: a = |amax-amin|; b = |bmax-bmin|; return overlap / (a[0]*a[1] + b[0]*b[1] - overlap)
       else: return 0.0                                                                          *)
  Definition rect_overlap (amin amax bmin bmax : gpt) : T N :=
    let dx := pymax zero (pymin (fst amax) (fst bmax) -! pymax (fst amin) (fst bmin)) in
    let dy := pymax zero (pymin (snd amax) (snd bmax) -! pymax (snd amin) (snd bmin)) in
    let overlap := dx *! dy in
    if zero <?! overlap then
      let a0 := abs (fst amax -! fst amin) in
      let a1 := abs (snd amax -! snd amin) in
      let b0 := abs (fst bmax -! fst bmin) in
      let b1 := abs (snd bmax -! snd bmin) in
      overlap /! (a0 *! a1 +! b0 *! b1 -! overlap)
    else zero.

  (* py: knee_ranking.py:101-111 distance_to_similarity   max(array) - array  (Python's built-in max:
     keeps the current maximum unless the next element is strictly greater) *)
  Definition py_max_list (l : list (T N)) : T N :=
    match l with [] => zero | x :: l' => fold_left pymax l' x end.
  Definition distance_to_similarity (l : list (T N)) : list (T N) :=
    let m := py_max_list l in map (fun x => m -! x) l.

  (* py: knee_ranking.py:114-127 rank
       temp = array.argsort(); ranks = np.empty_like(temp); ranks[temp] = np.arange(len(array))
     ranks is the inverse of the sorting permutation.  np.argsort is not stable on ties: the theorems
     are stated for EVERY permutation that sorts; the executable model sorts stably. *)
  Fixpoint index_of (i : nat) (l : list nat) : nat :=
    match l with
    | [] => 0
    | j :: l' => if Nat.eqb i j then 0 else S (index_of i l')
    end.
  Definition rank_of_perm (temp : list nat) : list nat :=
    map (fun i => index_of i temp) (seq 0 (length temp)).
  Definition argsort_stable (a : list (T N)) : list nat :=
    map fst (sort_by (fun p q : nat * T N => snd p <=?! snd q) (combine (seq 0 (length a)) a)).
  Definition rank (a : list (T N)) : list nat := rank_of_perm (argsort_stable a).

  (* the predicate of C17 rank_perm, evaluated on an output r: a permutation of 0..n-1 that orders the values *)
  Definition is_perm_b (n : nat) (r : list nat) : bool :=
    (length r =? n) && forallb (fun k => existsb (Nat.eqb k) r) (seq 0 n).
  Definition orders_b (a : list (T N)) (r : list nat) : bool :=
    forallb (fun i => forallb (fun j => implb (nth i r 0 <? nth j r 0) (leb (nth i a zero) (nth j a zero)))
                              (seq 0 (length a))) (seq 0 (length a)).
  Definition rank_okb (a : list (T N)) (r : list nat) : bool := is_perm_b (length a) r && orders_b a r.

  (* py: menger.py:27-51 menger_curvature (after the fix: fabs around the whole cross product)
       nom = 2.0 * fabs((x2-x1)*(y3-y2)-(y2-y1)*(x3-x2))
       temp = fabs((x2-x1)**2.0 + (y2-y1)**2.0)*fabs((x3-x2)**2.0 + (y3-y2)**2.0)*fabs((x1-x3)**2.0 + (y1-y3)**2.0)
       return nom/sqrt(temp)                                                                     *)
  Definition menger_curvature (f g h : gpt) : T N :=
    let '(x1, y1) := f in let '(x2, y2) := g in let '(x3, y3) := h in
    let nom := two *! abs ((x2 -! x1) *! (y3 -! y2) -! (y2 -! y1) *! (x3 -! x2)) in
    let temp := abs (sq (x2 -! x1) +! sq (y2 -! y1)) *! abs (sq (x3 -! x2) +! sq (y3 -! y2))
                *! abs (sq (x1 -! x3) +! sq (y1 -! y3)) in
    nom /! sqrt temp.

  (* py: postprocessing.py:448-459 triangle_area  (signed)
       0.5 * (p0x*(p1y-p2y) + p1x*(p2y-p0y) + p2x*(p0y-p1y))                                     *)
  Definition triangle_area (p0 p1 p2 : gpt) : T N :=
    half *! (fst p0 *! (snd p1 -! snd p2) +! fst p1 *! (snd p2 -! snd p0) +! fst p2 *! (snd p0 -! snd p1)).

  (* py: convex_hull.py:23-35 _ccw   (b0 - a0)*(c1 - a1) - (c0 - a0)*(b1 - a1) *)
  Definition ccw (a b c : gpt) : T N :=
    (fst b -! fst a) *! (snd c -! snd a) -! (fst c -! fst a) *! (snd b -! snd a).
End Geometry.
