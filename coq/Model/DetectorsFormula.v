(* Model/DetectorsFormula.v — the single-knee detectors as closed formula-level functions of the
   point list (no oracle tables): what curvature.knee, menger.knee, dfdt.knee, lmethod.get_knee /
   lmethod.knee and kneedle.knee (t = 0) evaluate, generic over N : Num.
   Not bit-reproducible parts are modelled by closed forms (DESIGN 2.2): u**1.5 := sqrt(u*u*u),
   v**2.0 := v*v, np.polyfit(deg 1, full=True) residual := residual of the least-squares line
   computed by the centred normal equations.  Executable definitions only. *)
From Coq Require Import ZArith List Bool Arith.
From Knee Require Import Num NpList Model.Uts.
Import ListNotations.
Local Open Scope num_scope.

Section DetectorsFormula.
  Context {N : Num}.
  Notation pt := (@pt N).

  (* ---------------------------------------------------------------- curvature *)
  (* py: curvature.py:50  np.absolute(gradient2) / ((1.0 + gradient1**2.0)**(1.5)) *)
  Definition curvature_value (g1 g2 : T N) : T N :=
    let u := one +! g1 *! g1 in
    abs g2 /! sqrt (u *! u *! u).
  Definition curvature_array (pts : list pt) : list (T N) :=
    map (fun g => curvature_value (fst g) (snd g)) (combine (cfd pts) (csd pts)).
  (* py: curvature.py:44-52 knee: np.argmax(curvature[1:-1]) + 1 *)
  Definition curvature_knee (pts : list pt) : nat :=
    S (argmax (interior (curvature_array pts))).

  (* ---------------------------------------------------------------- Menger *)
  (* py: menger.py:26-51 menger_curvature (after the fix: fabs around the whole cross product) *)
  Definition menger_curvature (f g h : pt) : T N :=
    let '(x1, y1) := f in let '(x2, y2) := g in let '(x3, y3) := h in
    let nom := two *! abs ((x2 -! x1) *! (y3 -! y2) -! (y2 -! y1) *! (x3 -! x2)) in
    let temp := abs (sq (x2 -! x1) +! sq (y2 -! y1)) *! abs (sq (x3 -! x2) +! sq (y3 -! y2))
                *! abs (sq (x1 -! x3) +! sq (y1 -! y3)) in
    nom /! sqrt temp.
  (* py: menger.py:54-76 knee: [0] + [menger(points[i], points[i-1], points[i+1])] + [0]; np.argmax *)
  Definition menger_array (pts : list pt) : list (T N) :=
    zero :: win3 (fun g f h => menger_curvature f g h) pts ++ [zero].
  Definition menger_knee (pts : list pt) : nat := argmax (menger_array pts).

  (* ---------------------------------------------------------------- L-method *)
  Inductive Fit := best_fit | point_fit.
  Inductive Cost := rss | rmse.
  Inductive Refinement := ref_none | ref_original | ref_adjusted.

  (* py: linear_fit.py:51-72 linear_fit: the line through the first and the last point, (b, m) *)
  Definition linear_fit (pts : list pt) : T N * T N :=
    let p0 := hd pzero pts in let pl := last pts pzero in
    let d := fst p0 -! fst pl in
    if d =?! zero then (zero, zero)
    else let m := (snd p0 -! snd pl) /! (fst p0 -! fst pl) in
         (snd p0 -! m *! fst p0, m).
  (* py: linear_fit.py:91-104 linear_transform; 412-425 linear_residuals; metrics.py:144-156 residuals
     (numba: np.sum is a left fold) *)
  Definition linear_residuals (pts : list pt) (coef : T N * T N) : T N :=
    let '(b, m) := coef in
    seq_sum (map (fun p : pt => sq (snd p -! (fst p *! m +! b))) pts).
  (* np.polyfit(x, y, 1, full=True): least-squares line (intercept, slope) by the centred normal equations *)
  Definition lsq_fit (pts : list pt) : T N * T N :=
    let n := ofN (length pts) in
    let xm := seq_sum (map fst pts) /! n in
    let ym := seq_sum (map snd pts) /! n in
    let sxx := seq_sum (map (fun p : pt => sq (fst p -! xm)) pts) in
    let sxy := seq_sum (map (fun p : pt => (fst p -! xm) *! (snd p -! ym)) pts) in
    let m := sxy /! sxx in
    (ym -! m *! xm, m).
  Definition fit_residuals (fit : Fit) (pts : list pt) : T N :=
    match fit with
    | best_fit => linear_residuals pts (lsq_fit pts)
    | point_fit => linear_residuals pts (linear_fit pts)
    end.

  (* py: lmethod.py:73-112 compute_error (the error component) *)
  Definition compute_error (pts : list pt) (index : nat) (length_ : T N) (fit : Fit) (cost : Cost) : T N :=
    let x0 := fst (hd pzero pts) in let xl := fst (last pts pzero) in
    let xi := fst (nth index pts pzero) in
    let left_ratio := (xi -! x0) /! length_ in
    let right_ratio := (xl -! xi) /! length_ in
    let r_left := fit_residuals fit (firstn (S index) pts) in
    let r_right := fit_residuals fit (skipn index pts) in
    match cost with
    | rmse => left_ratio *! sqrt (r_left *! left_ratio) +! right_ratio *! sqrt (right_ratio *! r_right)
    | rss => r_left *! left_ratio +! r_right *! right_ratio
    end.

  (* py: lmethod.py:131-146 the scan: keep the first strictly smaller error *)
  Fixpoint lscan (err : nat -> T N) (is_ : list nat) (best : T N) (bi : nat) : nat :=
    match is_ with
    | [] => bi
    | i :: r => let e := err i in
                if e <?! best then lscan err r e i else lscan err r best bi
    end.
  (* py: lmethod.py:115-148 get_knee (the index component): index = 2; for i in range(3, len(x)-2) *)
  Definition lmethod_get_knee (pts : list pt) (fit : Fit) (cost : Cost) : nat :=
    let length_ := fst (last pts pzero) -! fst (hd pzero pts) in
    let err := fun i => compute_error pts i length_ fit cost in
    lscan err (seq 3 (length pts - 5)) (err 2) 2.

  (* py: lmethod.py:151-183 knee.  State: last_knee (None = -1), current_knee, cutoff, done.
     get_knee is called with the default cost (rmse).  None = out of fuel *)
  Fixpoint lmethod_loop (fuel : nat) (pts : list pt) (fit : Fit) (it : Refinement) (limit : nat)
           (last_knee : option nat) (current cutoff : nat) (done : bool) : option nat :=
    if (match last_knee with Some l => current =? l | None => false end) || done then Some current else
    match fuel with
    | O => None
    | S f =>
        let last_k := current in
        let cur := lmethod_get_knee (firstn (S cutoff) pts) fit rmse in
        match it with
        | ref_adjusted => lmethod_loop f pts fit it limit (Some last_k) cur (Nat.max limit ((cur + last_k) / 2)) false
        | ref_original => lmethod_loop f pts fit it limit (Some last_k) cur
                            (Nat.max limit (Nat.min (cur * 2) (length pts))) (last_k <=? cur)
        | ref_none => lmethod_loop f pts fit it limit (Some last_k) cur cutoff true
        end
    end.
  Definition lmethod_knee (pts : list pt) (fit : Fit) (it : Refinement) (limit : nat) : option nat :=
    lmethod_loop (length pts + 3) pts fit it limit None (length pts) (length pts) false.

  (* ---------------------------------------------------------------- DFDT *)
  (* py: dfdt.py:43-57 get_knee_gradient *)
  Definition dfdt_get_knee_gradient (eps : T N) (g : list (T N)) : nat :=
    let t := isodata g eps in
    S (argmin (interior (map (fun v => abs (v -! t)) g))).
  (* py: dfdt.py:60-85 knee.  last_knee None = -1; cutoff = int(math.ceil(knee/2.0)) *)
  Fixpoint dfdt_loop (fuel : nat) (eps : T N) (g : list (T N)) (last_knee : option nat) (knee cutoff : nat) : option nat :=
    if (match last_knee with Some l => l <? knee | None => true end) && (2 <? length g - cutoff) then
      match fuel with
      | O => None
      | S f =>
          let k := dfdt_get_knee_gradient eps (skipn cutoff g) + cutoff in
          dfdt_loop f eps g (Some knee) k ((k + 1) / 2)
      end
    else Some knee.
  Definition dfdt_knee (eps : T N) (pts : list pt) : option nat :=
    dfdt_loop (length pts + 1) eps (cfd pts) None 0 0.

  (* ---------------------------------------------------------------- Kneedle, t = 0 *)
  Inductive Direction := Increasing | Decreasing.
  Inductive Concavity := Counterclockwise | Clockwise.

  (* py: kneedle.py:66-100 differences (the y column) *)
  Definition kneedle_difference (cd : Direction) (cc : Concavity) (p : pt) : T N :=
    let '(x, y) := p in
    match cd, cc with
    | Decreasing, Clockwise => x +! y
    | Decreasing, Counterclockwise => one -! (x +! y)
    | Increasing, Clockwise => y -! x
    | Increasing, Counterclockwise => abs (y -! x)
    end.
  (* py: kneedle.py:117-124 normalisation: (Ds - pmin)/diff with diff[diff == 0] = 1.0 *)
  Definition kneedle_normalise (pts : list pt) : list pt :=
    let xs := map fst pts in let ys := map snd pts in
    let xmin := np_min xs in let ymin := np_min ys in
    let dx := np_max xs -! xmin in let dy := np_max ys -! ymin in
    let dx := if dx =?! zero then one else dx in
    let dy := if dy =?! zero then one else dy in
    map (fun p : pt => ((fst p -! xmin) /! dx, (snd p -! ymin) /! dy)) pts.
  (* py: kneedle.py:103-133 _knee *)
  Definition kneedle_knee_cc (expm : T N -> T N) (pts : list pt) (t : T N) (cd : Direction) (cc : Concavity) : option nat :=
    let Ds := ema_linear expm pts t in
    let Dd := map (kneedle_difference cd cc) (kneedle_normalise Ds) in
    highest_peak Dd (all_peaks Dd).
  (* py: kneedle.py:230-270 knee: direction from the end-point slope, concavity from the sign of np.sum(y - yhat) *)
  Definition kneedle_direction (pts : list pt) : Direction :=
    let '(b, m) := linear_fit pts in if zero <?! m then Increasing else Decreasing.
  Definition kneedle_vote (pts : list pt) : T N :=
    let '(b, m) := linear_fit pts in
    np_sum (map (fun p : pt => snd p -! (fst p *! m +! b)) pts).
  Definition kneedle_concavity (pts : list pt) : Concavity :=
    if zero <?! kneedle_vote pts then Clockwise else Counterclockwise.
  Definition kneedle_knee (expm : T N -> T N) (pts : list pt) (t : T N) : option nat :=
    kneedle_knee_cc expm pts t (kneedle_direction pts) (kneedle_concavity pts).
End DetectorsFormula.
