(* Model/Pipeline.v — the end-to-end pipeline the demos compose (property C08):
     reduced, removed = <simplifier>(points, ...)
     knees  = <detector>.multi_knee(points[reduced])
     k1 = pp.filter_worst_knees(points_reduced, knees)
     k2 = pp.filter_corner_knees(points_reduced, k1, t)
     k3 = pp.filter_clusters(points_reduced, k2, linkage, t, ranking)
     out = rdp.mapping(k3, reduced, removed)
   py: demos/curvature.py:55-69 (and the other demos: same composition).
   The simplifier, the detector, the corner filter and the cluster filter enter as stage functions
   (their own properties C01/C02/C13/C12 give the specifications the composition theorem assumes);
   the worst-knee filter and the index mapping are computed in the model. *)
From Coq Require Import List Arith Bool.
From Knee Require Import Num NpList Model.Mapping.
Import ListNotations.
Local Open Scope num_scope.

Section Pipeline.
  Context {N : Num}.

  (* py: postprocessing.py:98-127 filter_worst_knees.  y k = points[k][1] *)
  Fixpoint worst_go (y : nat -> T N) (hmin : T N) (ks : list nat) : list nat :=
    match ks with
    | [] => []
    | k :: ks' => if y k <=?! hmin then k :: worst_go y (y k) ks' else worst_go y hmin ks'
    end.
  Definition filter_worst (y : nat -> T N) (ks : list nat) : list nat :=
    match ks with
    | [] => []
    | k :: ks' => k :: worst_go y (y k) ks'
    end.

  (* heights of the reduced curve in terms of the original one: points[reduced][j][1] *)
  Definition reduced_height (yo : nat -> T N) (red : list nat) (j : nat) : T N := yo (nth j red 0).

  (* the composition; the two remaining filters are stage functions *)
  Definition pipeline (red : list nat) (rem : list row) (yo : nat -> T N) (knees : list nat)
             (f_corner f_cluster : list nat -> list nat) : option (list nat) :=
    let k1 := filter_worst (reduced_height yo red) knees in
    let k2 := f_corner k1 in
    let k3 := f_cluster k2 in
    mapping k3 red rem true.

  (* l1 is a subsequence of l2 (executable) *)
  Fixpoint subseqb (l1 l2 : list nat) : bool :=
    match l1, l2 with
    | [], _ => true
    | _ :: _, [] => false
    | a :: l1', b :: l2' => if a =? b then subseqb l1' l2' else subseqb l1 l2'
    end.

  (* heights non-increasing from left to right along an index list, with the code's comparison *)
  Fixpoint nonincb (y : nat -> T N) (l : list nat) : bool :=
    match l with
    | a :: ((b :: _) as l') => (y b <=?! y a) && nonincb y l'
    | _ => true
    end.
End Pipeline.
