(* Model/Uts.v — the third-party `uts` (pyUTSAlgorithms 0.2) functions the detectors call,
   modelled generically over N : Num from the installed source
   (/venv/lib/python3.12/site-packages/uts).  Executable definitions only.
   A curve is a list of points (x, y). *)
From Coq Require Import ZArith List Bool Arith.
From Knee Require Import Num NpList.
Import ListNotations.
Local Open Scope num_scope.

(* f on every window of three consecutive elements: [f l0 l1 l2; f l1 l2 l3; ...] (length - 2 results) *)
Fixpoint win3 {A B} (f : A -> A -> A -> B) (l : list A) : list B :=
  match l with
  | [] => []
  | a :: l' =>
      match l' with
      | b :: c :: _ => f a b c :: win3 f l'
      | _ => []
      end
  end.

Section Uts.
  Context {N : Num}.
  Definition pt : Type := (T N * T N)%type.
  Definition pzero : pt := (zero, zero).

  (* py: uts/gradient.py:10-40 lagrange_derivative *)
  Definition lagrange_derivative (x x0 x1 x2 y0 y1 y2 : T N) : T N :=
    let p0 := y0 *! (two *! x -! x1 -! x2) /! ((x0 -! x1) *! (x0 -! x2)) in
    let p1 := y1 *! (two *! x -! x0 -! x2) /! ((x1 -! x0) *! (x1 -! x2)) in
    let p2 := y2 *! (two *! x -! x0 -! x1) /! ((x2 -! x0) *! (x2 -! x1)) in
    p0 +! p1 +! p2.

  (* py: uts/gradient.py:68-73 d1_central (vectorised; element-wise IEEE operations) *)
  Definition d1_central (p0 p1 p2 : pt) : T N :=
    let '(x0, y0) := p0 in let '(x1, y1) := p1 in let '(x2, y2) := p2 in
    y0 *! (x1 -! x2) /! ((x0 -! x1) *! (x0 -! x2))
    +! y1 *! (two *! x1 -! x0 -! x2) /! ((x1 -! x0) *! (x1 -! x2))
    +! y2 *! (x1 -! x0) /! ((x2 -! x0) *! (x2 -! x1)).

  (* py: uts/gradient.py:43-85 cfd.  ValueError (fewer than 3 points) is modelled as [] *)
  Definition cfd (pts : list pt) : list (T N) :=
    let n := length pts in
    if n <? 3 then [] else
    let p0 := nth 0 pts pzero in let p1 := nth 1 pts pzero in let p2 := nth 2 pts pzero in
    let q0 := nth (n - 3) pts pzero in let q1 := nth (n - 2) pts pzero in let q2 := nth (n - 1) pts pzero in
    lagrange_derivative (fst p0) (fst p0) (fst p1) (fst p2) (snd p0) (snd p1) (snd p2)
      :: win3 d1_central pts
      ++ [lagrange_derivative (fst q2) (fst q0) (fst q1) (fst q2) (snd q0) (snd q1) (snd q2)].

  (* py: uts/gradient.py:112-114 d2_central *)
  Definition d2_central (p1 p2 p3 : pt) : T N :=
    let '(x1, y1) := p1 in let '(x2, y2) := p2 in let '(x3, y3) := p3 in
    two *! (y1 /! ((x1 -! x2) *! (x1 -! x3)) +! y2 /! ((x2 -! x1) *! (x2 -! x3)) +! y3 /! ((x3 -! x1) *! (x3 -! x2))).

  (* py: uts/gradient.py:88-117 csd: end points copy their neighbours *)
  Definition csd (pts : list pt) : list (T N) :=
    let d2 := win3 d2_central pts in
    match d2 with
    | [] => []
    | a :: _ => a :: d2 ++ [last d2 a]
    end.

  (* py: uts/thresholding.py:10-50 isodata.  np.mean = NumPy pairwise sum / count (NpList.np_mean);
     `array > threshold` is `threshold < v` *)
  Fixpoint isodata_loop (fuel : nat) (arr : list (T N)) (eps t : T N) : T N :=
    match fuel with
    | O => t
    | S f =>
        let lft := filter (fun v => v <=?! t) arr in
        let rgt := filter (fun v => t <?! v) arr in
        match lft, rgt with
        | [], _ => t
        | _, [] => t
        | _, _ =>
            let nt := (np_mean lft +! np_mean rgt) /! two in
            if abs (nt -! t) <?! eps then nt else isodata_loop f arr eps nt
        end
    end.
  Definition isodata_fuel (max_iter : nat) (arr : list (T N)) (eps : T N) : T N :=
    match arr with
    | [] => zero
    | _ => isodata_loop max_iter arr eps (np_mean arr)
    end.
  Definition isodata := isodata_fuel 100.

  (* py: uts/ema.py:95-139 ema_linear.  tau = 0 returns a copy; otherwise the recurrence, with
     np.exp(-tmp) an oracle `expm tmp` (Kneedle at t = 0 never evaluates it) *)
  Fixpoint ema_linear_go (expm : T N -> T N) (tau : T N) (prev : pt) (ema_prev : T N) (l : list pt) : list pt :=
    match l with
    | [] => []
    | (ti, yi) :: l' =>
        let dt := ti -! fst prev in
        let tmp := dt /! tau in
        let w := expm tmp in
        let w2 := if ofZ 1 /! ofZ 1000000 <?! tmp then (one -! w) /! tmp
                  else one -! (tmp /! two) +! (tmp *! tmp /! ofZ 6) -! (tmp *! tmp *! tmp /! ofZ 24) in
        let e := ema_prev *! w +! yi *! (one -! w2) +! snd prev *! (w2 -! w) in
        (ti, e) :: ema_linear_go expm tau (ti, yi) e l'
    end.
  Definition ema_linear (expm : T N -> T N) (pts : list pt) (tau : T N) : list pt :=
    if tau =?! zero then pts else
    match pts with
    | [] => []
    | p :: l => p :: ema_linear_go expm tau p (snd p) l
    end.

  (* py: uts/peak_detection.py:13-31 all_peaks: y[i-1] < y[i] > y[i+1], indices ascending *)
  Fixpoint true_indices (i : nat) (l : list bool) : list nat :=
    match l with
    | [] => []
    | b :: l' => if b then i :: true_indices (S i) l' else true_indices (S i) l'
    end.
  Definition all_peaks (ys : list (T N)) : list nat :=
    true_indices 1 (win3 (fun a b c => (a <?! b) && (c <?! b)) ys).

  (* py: uts/peak_detection.py:56-71 highest_peak: peaks_idx[np.argmax(points[peaks_idx, 1])], None if no peaks *)
  Definition highest_peak (ys : list (T N)) (peaks : list nat) : option nat :=
    match peaks with
    | [] => None
    | _ => Some (nth (argmax (map (fun i => nth i ys zero) peaks)) peaks 0)
    end.
End Uts.
