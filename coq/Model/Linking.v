(* Model/Linking.v — C20, static part: an executable model of how CPython resolves the references that
   occur in the text of a package (DESIGN.md 2.4(b), 4/C20).

   The FACTS (a value of type [program]) are not written by hand: harness/linkfacts.py regenerates them from
   the `ast` of every module under src/kneeliverse on every run (bindings of every scope, every name load,
   every attribute chain rooted at a name, every call with its positional count and keyword names, the
   symbol tables `dir()` of the installed modules / classes / ufuncs that the chains go through).
   This file only says what it MEANS for such a reference to resolve, as executable functions.

   py: CPython name resolution (LEGB): the innermost scope that binds the name wins — function locals,
       then the enclosing function scopes (class scopes are skipped for nested functions: the translator
       leaves them out of [sc_chain]), then the module globals, then `builtins`.
   py: attribute lookup `a.b.c`: followed only through objects whose attribute table is static — modules,
       classes, ufuncs ([EStatic key]); an attribute of any other value is not decided statically ([EOpaque]).
   py: call `f(a1..an, k1=.., ..)` of a function defined in the package: CPython's argument binding rules. *)
From Coq Require Import List String Bool Arith ZArith.
Import ListNotations.
Local Open Scope string_scope.

(* ---------------------------------------------------------------- facts *)

(* py: ast.arguments of a `def` — posonlyargs ++ args (with "has a default" flags), *vararg, kwonlyargs, **kwarg *)
Record fsig := {
  fs_pos     : list (string * bool);   (* positional parameters in order; true = has a default *)
  fs_posonly : nat;                    (* how many of the leading ones are positional-only *)
  fs_vararg  : bool;
  fs_kwonly  : list (string * bool);
  fs_varkw   : bool }.

(* what a bound name / an attribute denotes, as far as the program text decides it *)
Inductive ekind :=
  | EOpaque                (* some run-time value: attributes not decided statically *)
  | EStatic (key : string) (* a module, class or ufunc whose symbol table is the table [key] *)
  | EFunc (sg : fsig).     (* a function defined by an (undecorated or numba.jit-decorated) `def` of the package *)

Definition binding := (string * ekind)%type.

(* symbol table of a module / class / ufunc: own entries, then (classes) the tables of the bases *)
Record table := { t_own : list binding; t_bases : list string }.

Inductive ref :=
  | RName (x : string)                              (* a Name in Load context *)
  | RAttr (root : string) (chain : list string)     (* root.a1.a2...  (Attribute chain rooted at a Name) *)
  | RCall (root : string) (chain : list string) (npos : nat) (kws : list string) (star dstar : bool)
                                                    (* root.a1...(e1..e_npos, k=.., *star, **dstar) *)
  | RImport (key : string)                          (* import key *)
  | RFrom (key name : string).                      (* from key import name *)

(* one lexical scope: module body, function, lambda, class body, comprehension *)
Record scope := {
  sc_name  : string;                 (* qualified name, "<module>" for the module body *)
  sc_chain : list (list binding);    (* own bindings first, then the enclosing FUNCTION scopes, innermost first *)
  sc_refs  : list (nat * ref) }.     (* (source line, reference) *)

Record module := { m_name : string; m_globals : list binding; m_scopes : list scope }.

Record program := {
  p_modules  : list module;
  p_ext      : list (string * table);   (* installed modules / classes / ufuncs, package classes *)
  p_builtins : list string }.           (* dir(builtins) *)

(* a reference together with where it stands *)
Definition lref := (module * scope * nat * ref)%type.

Definition refs_of_module (m : module) : list lref :=
  flat_map (fun s => map (fun lr => (m, s, fst lr, snd lr)) (sc_refs s)) (m_scopes m).
Definition refs (p : program) : list lref := flat_map refs_of_module (p_modules p).

(* the attribute table of a package module IS its global namespace *)
Definition module_table (m : module) : string * table :=
  (m_name m, {| t_own := m_globals m; t_bases := [] |}).
Definition tables (p : program) : list (string * table) := map module_table (p_modules p) ++ p_ext p.

(* ---------------------------------------------------------------- lookups *)

Fixpoint assoc {A : Type} (x : string) (l : list (string * A)) : option A :=
  match l with
  | [] => None
  | (y, v) :: l' => if String.eqb y x then Some v else assoc x l'
  end.

Fixpoint mem (x : string) (l : list string) : bool :=
  match l with
  | [] => false
  | y :: l' => String.eqb y x || mem x l'
  end.

Definition is_some {A : Type} (o : option A) : bool := match o with Some _ => true | None => false end.

(* py: LEGB, the L and E part *)
Fixpoint lookup_chain (x : string) (ch : list (list binding)) : option ekind :=
  match ch with
  | [] => None
  | l :: ch' => match assoc x l with Some k => Some k | None => lookup_chain x ch' end
  end.

(* py: LEGB *)
Definition lookup_name (p : program) (m : module) (s : scope) (x : string) : option ekind :=
  match lookup_chain x (sc_chain s) with
  | Some k => Some k
  | None =>
      match assoc x (m_globals m) with
      | Some k => Some k
      | None => if mem x (p_builtins p) then Some EOpaque else None
      end
  end.

(* py: type.__getattribute__ along the (flattened) bases; a base without a table fails closed *)
Fixpoint lookup_bases (tbls : list (string * table)) (bases : list string) (a : string) : option ekind :=
  match bases with
  | [] => None
  | b :: bs =>
      match assoc b tbls with
      | None => None
      | Some tb => match assoc a (t_own tb) with Some k => Some k | None => lookup_bases tbls bs a end
      end
  end.

Definition lookup_attr (tbls : list (string * table)) (key a : string) : option ekind :=
  match assoc key tbls with
  | None => None
  | Some t => match assoc a (t_own t) with Some k => Some k | None => lookup_bases tbls (t_bases t) a end
  end.

(* follow an attribute chain from a value of kind k; None = AttributeError *)
Fixpoint walk (tbls : list (string * table)) (k : ekind) (chain : list string) : option ekind :=
  match chain with
  | [] => Some k
  | a :: rest =>
      match k with
      | EStatic key => match lookup_attr tbls key a with Some k' => walk tbls k' rest | None => None end
      | _ => Some EOpaque
      end
  end.

(* ---------------------------------------------------------------- arity *)

Fixpoint index_of (x : string) (l : list string) : option nat :=
  match l with
  | [] => None
  | y :: l' => if String.eqb y x then Some 0 else option_map S (index_of x l')
  end.

Fixpoint nodupb (l : list string) : bool :=
  match l with
  | [] => true
  | x :: l' => negb (mem x l') && nodupb l'
  end.

(* every positional parameter from position i on is supplied: by position, by default, or by keyword *)
Fixpoint pos_supplied (i npos posonly : nat) (kws : list string) (ps : list (string * bool)) : bool :=
  match ps with
  | [] => true
  | (n, d) :: ps' => (d || Nat.ltb i npos || (Nat.leb posonly i && mem n kws)) && pos_supplied (S i) npos posonly kws ps'
  end.

(* a keyword argument finds a parameter that is not already filled by position *)
Definition kw_accepted (sg : fsig) (npos : nat) (kw : string) : bool :=
  match index_of kw (map fst (fs_pos sg)) with
  | Some i => if Nat.ltb i (fs_posonly sg) then fs_varkw sg else Nat.leb npos i
  | None => mem kw (map fst (fs_kwonly sg)) || fs_varkw sg
  end.

(* py: CPython's argument binding for f(e1..e_npos, k1=.., ...) without * / ** at the call site *)
Definition arity_ok (sg : fsig) (npos : nat) (kws : list string) : bool :=
  (Nat.leb npos (List.length (fs_pos sg)) || fs_vararg sg)
  && nodupb kws
  && forallb (kw_accepted sg npos) kws
  && pos_supplied 0 npos (fs_posonly sg) kws (fs_pos sg)
  && forallb (fun nd => snd nd || mem (fst nd) kws) (fs_kwonly sg).

(* ---------------------------------------------------------------- the checker *)

(* 0 resolves; 1 NameError (name bound nowhere); 2 AttributeError (attribute missing in a static table);
   3 TypeError (arity); 4 ImportError *)
Definition diagnose (p : program) (m : module) (s : scope) (r : ref) : nat :=
  match r with
  | RName x => if is_some (lookup_name p m s x) then 0 else 1
  | RAttr root chain =>
      match lookup_name p m s root with
      | None => 1
      | Some k => if is_some (walk (tables p) k chain) then 0 else 2
      end
  | RCall root chain npos kws star dstar =>
      match lookup_name p m s root with
      | None => 1
      | Some k =>
          match walk (tables p) k chain with
          | None => 2
          | Some (EFunc sg) => if star || dstar || arity_ok sg npos kws then 0 else 3
          | Some _ => 0
          end
      end
  | RImport key => if is_some (assoc key (tables p)) then 0 else 4
  | RFrom key name =>
      match assoc key (tables p) with
      | None => 4
      | Some _ => if is_some (lookup_attr (tables p) key name) then 0 else 4
      end
  end.

Definition diagnose_lref (p : program) (lr : lref) : nat :=
  let '(m, s, _, r) := lr in diagnose p m s r.

Definition check_lref (p : program) (lr : lref) : bool := Nat.eqb (diagnose_lref p lr) 0.

Definition check_program (p : program) : bool := forallb (check_lref p) (refs p).
Definition failing_refs (p : program) : list lref := filter (fun lr => negb (check_lref p lr)) (refs p).

(* --- open findings of known_findings.json: (module, scope, diagnosis) triples that are reported as
   KNOWN-FINDING instead of failing the run; the theorem says exactly which references are excused *)
Definition waiver := (string * string * nat)%type.
Definition waiver_matches (p : program) (lr : lref) (w : waiver) : bool :=
  let '(m, s, _, _) := lr in
  let '(wm, ws, wd) := w in
  String.eqb wm (m_name m) && String.eqb ws (sc_name s) && Nat.eqb wd (diagnose_lref p lr).
Definition check_lref_w (ws : list waiver) (p : program) (lr : lref) : bool :=
  check_lref p lr || existsb (waiver_matches p lr) ws.
Definition check_program_w (ws : list waiver) (p : program) : bool := forallb (check_lref_w ws p) (refs p).

(* --- what the harness prints: position in [refs p], source line, diagnosis of every failing reference *)
Fixpoint enumerate_from {A : Type} (i : nat) (l : list A) : list (nat * A) :=
  match l with
  | [] => []
  | x :: l' => (i, x) :: enumerate_from (S i) l'
  end.
Definition failing_idx (p : program) : list (nat * nat * nat) :=
  map (fun ilr => let '(i, lr) := ilr in let '(_, _, ln, _) := lr in (i, ln, diagnose_lref p lr))
      (filter (fun ilr => negb (check_lref p (snd ilr))) (enumerate_from 0 (refs p))).

(* how many references of each kind the facts hold, and how many calls were checked for arity *)
Definition is_arity_checked (p : program) (lr : lref) : bool :=
  let '(m, s, _, r) := lr in
  match r with
  | RCall root chain npos kws star dstar =>
      match lookup_name p m s root with
      | Some k => match walk (tables p) k chain with Some (EFunc _) => negb (star || dstar) | _ => false end
      | None => false
      end
  | _ => false
  end.
Definition ref_kind (r : ref) : nat :=
  match r with RName _ => 0 | RAttr _ _ => 1 | RCall _ _ _ _ _ _ => 2 | RImport _ => 3 | RFrom _ _ => 4 end.
Definition count_kind (p : program) (k : nat) : nat :=
  List.length (filter (fun lr => Nat.eqb (ref_kind (snd lr)) k) (refs p)).
Definition stats (p : program) : list nat :=
  [List.length (refs p); count_kind p 0; count_kind p 1; count_kind p 2; count_kind p 3; count_kind p 4;
   List.length (filter (is_arity_checked p) (refs p)); List.length (p_modules p);
   List.length (flat_map m_scopes (p_modules p)); List.length (p_ext p); List.length (failing_idx p)].

(* ---------------------------------------------------------------- dynamic part: the predicate
   A run = (tag of the re-presentation of the input, arguments and defaults bit-for-bit unchanged by the call,
   encoding of the result as a list of integers: IEEE bit patterns of the numbers, shapes, tags). *)
Fixpoint zlist_eqb (a b : list Z) : bool :=
  match a, b with
  | [], [] => true
  | x :: a', y :: b' => Z.eqb x y && zlist_eqb a' b'
  | _, _ => false
  end.

(* a result encoding that starts with 7, 1 is an exception of the LINKING kind raised on a valid input: NameError,
   UnboundLocalError, AttributeError, or a TypeError whose message is an arity / keyword mismatch
   (the property: no code path can fail with NameError, AttributeError or an arity TypeError) *)
Definition link_exc (r : list Z) : bool :=
  match r with
  | 7%Z :: 1%Z :: _ => true
  | _ => false
  end.

(* the boolean predicate of the dynamic part: 0 = holds; 20 + tag = the call with that re-presentation
   modified an argument or a default; 40 + tag = it raised a linking-kind exception;
   tag = its result differs from the base result *)
Fixpoint dyn_first_bad (r0 : list Z) (runs : list (nat * bool * list Z)) : nat :=
  match runs with
  | [] => 0
  | (t, unchanged, r) :: rest =>
      if negb unchanged then 20 + t
      else if link_exc r then 40 + t
      else if negb (zlist_eqb r r0) then (if Nat.eqb t 0 then 19 else t)
      else dyn_first_bad r0 rest
  end.
Definition dyn_holds (runs : list (nat * bool * list Z)) : nat :=
  match runs with
  | [] => 0
  | (_, _, r0) :: _ => dyn_first_bad r0 runs
  end.

