(* Model/RdpCost.v — the segment cost of threshold RDP DERIVED in the model (DESIGN 8.2: an oracle may only be an
   irreducible non-bit-reproducible primitive).  rdp.rdp's cost of points[l:r] is
       rdp.compute_cost_coef(pt, lf.linear_fit_points(pt), cost)            (rdp.py:159-160)
   i.e. the end-point line of the sub-array, the fitted values m*x+b and the metric selected by compute_cost_coef's
   dispatch table (rdp.py:110-116).  For smape, rpd, rmspe and R2 all of that is + - * / sqrt abs max and the two
   exactly modelled summations, so it is computed here from the formula layer's definitions (Model/LinearFit.v,
   Model/Metrics.v: not re-derived); rmsle goes through np.log (libm) and stays an oracle as a whole (its irreducible
   part would be one table of logarithms per range — not cheaper than the cost itself).
   Executable definitions only; the theorems of Proofs/RdpFacts.v are generic over `segcost` and apply verbatim. *)
From Coq Require Import ZArith List Arith Bool.
From Knee Require Import Num NpList Model.Metrics Model.LinearFit.
Import ListNotations.
Local Open Scope num_scope.

(* py: metrics.py Metrics (the five members rdp.compute_cost_coef dispatches on) *)
Inductive metric := MSmape | MRpd | MRmspe | MRmsle | MR2.
Definition metric_is_r2 (m : metric) : bool := match m with MR2 => true | _ => false end.
Definition metric_derived (m : metric) : bool := match m with MRmsle => false | _ => true end.

Section RdpCost.
  Context {N : Num}.
  Variable P : list (@pt N).          (* the curve: points[i] = (x_i, y_i) *)
  Variable eps : T N.                 (* the metrics' default eps = 1e-16 (linear_fit.py:245,319,330) *)
  Variable rmsle_cost : nat -> nat -> T N.   (* oracle, only consulted for MRmsle *)

  (* py: rdp.py:151 pt = points[left:right]; rdp.py:159 coef = lf.linear_fit_points(pt);
         rdp.py:110-116 methods = {r2: lf.linear_r2_points, rmspe: lf.rmspe_points, rmsle: lf.rmsle_points,
                                   smape: lf.smape_points, rpd: lf.rpd_points}; return methods[cost](pt, coef) *)
  Definition derived_cost (m : metric) (l r : nat) : T N :=
    let sub := slice P l r in
    let c := linear_fit_points sub in
    match m with
    | MSmape => smape_points sub c eps
    | MRpd => rpd_points sub c eps
    | MRmspe => rmspe_points sub c eps
    | MR2 => linear_r2_points sub c R2classic
    | MRmsle => rmsle_cost l r
    end.
End RdpCost.
