(* Model/ExtrasKneedle.v — kneedle.knees / kneedle._knees, the native multi-knee Kneedle (DESIGN.md 2.8 "not modelled at all").
   py: kneedle.py:136-185 _knees; kneedle.py:188-226 knees.
   Oracles (third-party `uts`, libm inside): Ds = uts.ema.ema_linear(points, t) (np.exp) and, per concavity, the peaks that
   uts.peak_detection.{kneedle_peak_detection, significant_peaks, significant_zscore_peaks} select on the difference curve
   (np.std / z-scores inside).  Computed here: the min-max normalisation (WITHOUT the zero-range guard of _knee), the difference
   curve (Model/DetectorsFormula.v), uts.peak_detection.all_peaks (Model/Uts.v; PeakDetection.All needs no selector oracle), the
   direction from the end-point slope, and the merge np.unique(np.concatenate(...)). *)
From Coq Require Import ZArith List Bool Arith.
From Knee Require Import Num NpList Model.Uts Model.DetectorsFormula.
Import ListNotations.
Local Open Scope num_scope.

(* py: kneedle.py:53-63 class PeakDetection *)
Inductive peakdet := PKneedle | PZScore | PSignificant | PAll.

Section KneedleKnees.
  Context {N : Num}.
  Local Notation pt := (@pt N).

  (* py: kneedle.py:163-165   pmin = Ds.min(axis=0); pmax = Ds.max(axis=0); Dn = (Ds - pmin)/(pmax - pmin) *)
  Definition knees_normalise (Ds : list pt) : list pt :=
    let xs := map fst Ds in let ys := map snd Ds in
    let xmin := np_min xs in let ymin := np_min ys in
    let dx := np_max xs -! xmin in let dy := np_max ys -! ymin in
    map (fun p : pt => ((fst p -! xmin) /! dx, (snd p -! ymin) /! dy)) Ds.
  (* py: kneedle.py:167   Dd = differences(Dn, cd, cc)   (the y column; the x column is Dn's) *)
  Definition knees_dd (Ds : list pt) (cd : Direction) (cc : Concavity) : list (T N) :=
    map (kneedle_difference cd cc) (knees_normalise Ds).
  (* py: kneedle.py:171-185   peaks_idx = pd.all_peaks(Dd); knees = the selector's choice among them (All: every peak) *)
  Definition knees_cc (Ds : list pt) (cd : Direction) (cc : Concavity) (p : peakdet) (sel : list nat) : list nat :=
    match p with
    | PAll => all_peaks (knees_dd Ds cd cc)
    | _ => sel
    end.
  (* py: kneedle.py:210-226 knees   direction from the end-point slope (m > 0), both concavities, concatenate, unique, sort *)
  Definition kneedle_knees (pts Ds : list pt) (p : peakdet) (sel_ccw sel_cw : list nat) : list nat :=
    let cd := kneedle_direction pts in
    np_unique (knees_cc Ds cd Counterclockwise p sel_ccw ++ knees_cc Ds cd Clockwise p sel_cw).

  (* the judge's predicate on an output: strictly increasing, and exactly the members of the two selections *)
  Definition kneedle_knees_okb (pts Ds : list pt) (p : peakdet) (sel_ccw sel_cw out : list nat) : nat :=
    let cd := kneedle_direction pts in
    let both := knees_cc Ds cd Counterclockwise p sel_ccw ++ knees_cc Ds cd Clockwise p sel_cw in
    if negb (strictly_increasing out) then 1
    else if negb (forallb (fun k => existsb (Nat.eqb k) both) out) then 2
    else if negb (forallb (fun k => existsb (Nat.eqb k) out) both) then 3
    else 0.
End KneedleKnees.
