(* Model/Rdp.v — threshold RDP (rdp.rdp) over the oracles `dist`, `segcost` (DESIGN 2.3), and the
   executable predicates the C01 / C04 theorems are stated with.  Executable definitions only.
   py: rdp.py:119-174 rdp *)
From Coq Require Import List Arith Bool.
From Knee Require Import Num NpList Model.Mapping.
Import ListNotations.
Local Open Scope num_scope.

(* a half-open Python range points[l:r]; its retained end points are l and r-1 *)
Notation seg := (nat * nat)%type (only parsing).

(* the index list of a chain of segments ending at b: the left ends, then b  (py: rdp.py:170,173) *)
Definition breaks (segs : list seg) (b : nat) : list nat := map fst segs ++ [b].
(* py: rdp.py:171  removed.append([left, len(pt) - 2.0]) *)
Definition seg_rows (segs : list seg) : list row := map (fun s => (fst s, snd s - fst s - 2)) segs.

(* consecutive pairs of an index list *)
Fixpoint pairs (l : list nat) : list (nat * nat) :=
  match l with
  | a :: ((b :: _) as l') => (a, b) :: pairs l'
  | _ => []
  end.
Definition rows_eqb : list row -> list row -> bool := list_eqb row_eqb.
Definition dropped (rem : list row) : nat := fold_right (fun r s => snd r + s) 0 rem.

(* C01, the predicate every simplifier's output is judged with: 0 = returned a well-formed (reduced, removed) with
   every loop activation within `bound` iterations and at most `acts` activations; k = conjunct k fails.
   o = None: the implementation raised / did not return.  iters = iterations of each while-loop activation. *)
Definition C01_code (n bound acts : nat) (o : option (list nat * list row)) (iters : list nat) : nat :=
  match o with
  | None => 1
  | Some (red, rem) =>
      if negb (WFb n red) then 2
      else if negb (rows_eqb rem (rows red)) then 3
      else if negb (length red + dropped rem =? n) then 4
      else if negb ((length iters <=? acts) && forallb (fun k => k <=? bound) iters) then 5
      else 0
  end.

Section Rdp.
  Context {N : Num}.
  (* oracles: functions of the sub-array points[l:r] only, keyed by absolute (l, r) *)
  Variable dist : nat -> nat -> list (T N).   (* distance_points(points[l:r], points[l], points[r-1]) *)
  Variable segcost : nat -> nat -> T N.       (* compute_cost_coef(points[l:r], linear_fit_points(points[l:r]), cost) *)
  Variable r2 : bool.                         (* cost is metrics.Metrics.r2 *)
  Variable t : T N.                           (* the threshold *)

  (* py: rdp.py:153-157  segments of <= 2 points are never evaluated *)
  Definition trivial_cost : T N := if r2 then one else zero.
  (* py: rdp.py:162  curved = r < t if cost is metrics.Metrics.r2 else r >= t *)
  Definition curved (c : T N) : bool := if r2 then c <?! t else t <=?! c.
  (* py: rdp.py:166  index = np.argmax(d[1:-1]) + 1 *)
  Definition split (d : list (T N)) : nat := S (argmax (interior d)).
  (* py: rdp.py:153-160 *)
  Definition cost_of (l r : nat) : T N := if r - l <=? 2 then trivial_cost else segcost l r.

  (* py: rdp.py:149-171  the while loop.  stack: top first (Python pops the last element, and pushes the
     right child before the left one); acc: accepted segments, most recent first; visited: every popped
     range, most recent first.  One unit of fuel per evaluation of the loop condition. *)
  Fixpoint rdp_loop (fuel : nat) (stack acc visited : list seg) : option (list seg * list seg) :=
    match fuel with
    | O => None
    | S f =>
        match stack with
        | [] => Some (rev acc, rev visited)
        | (l, r) :: st =>
            if curved (cost_of l r) then
              let i := split (dist l r) in
              rdp_loop f ((l, l + i + 1) :: (l + i, r) :: st) acc ((l, r) :: visited)
            else rdp_loop f st ((l, r) :: acc) ((l, r) :: visited)
        end
    end.

  (* py: rdp.py:135, 173-174.  Result: (reduced, removed, popped ranges in order); None = out of fuel.
     The number of loop iterations is the length of the third component. *)
  Definition rdp (n : nat) : option (list nat * list row * list seg) :=
    match rdp_loop (2 * n) [(0, n)] [] [] with
    | Some (segs, vis) => Some (breaks segs (n - 1), seg_rows segs, vis)
    | None => None
    end.

  (* ---- the predicates of C04, executable ---- *)

  (* every retained segment with interior points was evaluated and accepted *)
  Definition kept_fitb (red : list nat) : bool :=
    forallb (fun p => (snd p - fst p <? 2) || negb (curved (segcost (fst p) (snd p + 1)))) (pairs red).

  (* Expl l r S (l, r inclusive end points): the retained set S restricted to [l, r] is the recursive
     partition: either nothing of S lies strictly inside and the range accepts (or has no interior), or
     the range rejects, its interior arg-max i is in S and both halves are explained. *)
  Fixpoint explb (fuel : nat) (S : list nat) (l r : nat) : bool :=
    match fuel with
    | O => false
    | Datatypes.S f =>
        let none_inside := forallb (fun i => negb ((l <? i) && (i <? r))) S in
        if r - l <? 2 then none_inside
        else if curved (segcost l (r + 1)) then
          let i := l + split (dist l (r + 1)) in
          (l <? i) && (i <? r) && existsb (Nat.eqb i) S && explb f S l i && explb f S i r
        else none_inside
    end.

  (* C04: 0 = holds; k = conjunct k fails *)
  Definition C04_code (n : nat) (o : option (list nat * list row)) : nat :=
    match o with
    | None => 1
    | Some (red, rem) =>
        if negb (WFb n red) then 2
        else if negb (rows_eqb rem (rows red)) then 3
        else if negb (kept_fitb red) then 4
        else if negb (explb n red 0 (n - 1)) then 5
        else 0
    end.

  (* the (l, r) keys a run needs from the oracle tables, given which ranges were popped *)
  Definition keys_needed (visited : list seg) : list seg * list seg :=
    (filter (fun s => negb (snd s - fst s <=? 2)) visited,
     filter (fun s => curved (cost_of (fst s) (snd s))) visited).
End Rdp.
