(* Model/DetectorsError.v — the L-method criterion DERIVED in the model (property C09, DESIGN 8.2: an oracle is only
   ever an irreducible non-bit-reproducible primitive).  lmethod.compute_error is a composite: two line fits, their
   residual sums of squares, the left/right length ratios and the cost combination.  For Fit.point_fit every step is
   bit-reproducible (end-point line, x*m+b, numba left-fold sum of squares: Model/LinearFit.v, Model/Metrics.v); for
   Fit.best_fit the only oracle left is the least-squares residual np.polyfit(x[a:b], y[a:b], 1, full=True)[1][0]
   (LAPACK), keyed by the absolute slice bounds (a, b); ratios, weights and the combination are derived.
   Also: menger.menger_curvature re-derived from Model/Geometry.v (x**2.0 is libm pow, NOT always x*x: compared under
   tolerance only, the decision keeps the library's value).  Executable definitions only. *)
From Coq Require Import ZArith List Bool Arith.
From Knee Require Import Num NpList Model.Metrics Model.LinearFit Model.Geometry Model.Detectors.
Import ListNotations.
Local Open Scope num_scope.

(* py: lmethod.py:31-54 Fit, Cost *)
Inductive lfit : Type := FitPoint | FitBest.
Inductive lcost : Type := CostRmse | CostRss.

Section LmError.
  Context {N : Num}.
  Variables xs ys : list (T N).                  (* points[:, 0], points[:, 1] *)
  Variable polyres : nat -> nat -> oval (T N).   (* np.polyfit(x[a:b], y[a:b], 1, full=True) residuals[0]; ORaise: empty residuals / LinAlgError *)

  (* py: lmethod.py:102-105  r = lf.linear_residuals(x[a:b], y[a:b], lf.linear_fit(x[a:b], y[a:b])) *)
  Definition lm_point_resid (a b : nat) : T N :=
    let x := slice xs a b in let y := slice ys a b in
    linear_residuals x y (linear_fit x y).
  (* py: lmethod.py:95-105 the residual of one arm *)
  Definition lm_resid (fit : lfit) (a b : nat) : oval (T N) :=
    match fit with FitPoint => OVal (lm_point_resid a b) | FitBest => polyres a b end.

  (* py: lmethod.py:73-112 compute_error(x[0:m], y[0:m], index, x[m-1]-x[0], fit, cost)[0]:
       left_length = x[index] - x[0]; right_length = x[-1] - x[index]
       left_ratio = left_length/length; right_ratio = right_length/length
       r_left / r_rigth: residual of the fit of x[0:index+1] / x[index:]
       rmse: left_ratio*math.sqrt(r_left*left_ratio) + right_ratio*math.sqrt(right_ratio*r_rigth)
       rss : r_left*left_ratio + r_rigth*right_ratio
     ORaise: x[index] out of range (IndexError), empty polyfit residuals (IndexError), math.sqrt of a negative (ValueError) *)
  Definition lm_error (fit : lfit) (cost : lcost) (m index : nat) : oval (T N) :=
    if m <=? index then ORaise else
    let x0 := nth 0 xs zero in
    let xl := nth (m - 1) xs zero in
    let xi := nth index xs zero in
    let length_ := xl -! x0 in
    let left_ratio := (xi -! x0) /! length_ in
    let right_ratio := (xl -! xi) /! length_ in
    match lm_resid fit 0 (index + 1), lm_resid fit index m with
    | OVal r_left, OVal r_right =>
        match cost with
        | CostRss => OVal (r_left *! left_ratio +! r_right *! right_ratio)
        | CostRmse =>
            let a := r_left *! left_ratio in
            let b := right_ratio *! r_right in
            if (a <?! zero) || (b <?! zero) then ORaise
            else OVal (left_ratio *! sqrt a +! right_ratio *! sqrt b)
        end
    | ORaise, _ => ORaise
    | _, ORaise => ORaise
    | _, _ => OMissing
    end.

  (* the criterion tables of Model/Detectors.v, instantiated with the derived error *)
  (* py: lmethod.py:115-146 get_knee(x, y, fit, cost) on all n = length xs points *)
  Definition lm_get_knee_derived (fit : lfit) (cost : lcost) : oval nat :=
    lm_get_knee (lm_error fit cost (length xs)) (length xs).
  (* py: lmethod.py:149-182 knee(points, fit, it, limit): get_knee is called WITHOUT cost, i.e. with Cost.rmse *)
  Definition lmethod_knee_res_derived (fit : lfit) (it : refinement) (limit : nat) : res :=
    lmethod_knee_res (length xs) (lm_error fit CostRmse) it limit.
End LmError.

(* what a composite library function returned (a table of (m, index) |-> value) equals the derived value, entry by entry *)
Definition oval_same {A} (same : A -> A -> bool) (a b : oval A) : bool :=
  match a, b with
  | OVal x, OVal y => same x y
  | ORaise, ORaise => true
  | _, _ => false
  end.
Definition lm_table_same_b {A} (same : A -> A -> bool) (derived : nat -> nat -> oval A) (tbl : list (nat * nat * oval A)) : bool :=
  forallb (fun e => let '(m, i, v) := e in oval_same same (derived m i) v) tbl.

Section MengerDerived.
  Context {N : Num}.
  (* py: menger.py:65-72  [menger_curvature(points[i], points[i-1], points[i+1]) for i in 1..n-2], with x**2.0 := x*x *)
  Fixpoint menger_table (P : list (T N * T N)) : list (T N) :=
    match P with
    | g :: ((f :: h :: _) as P') => menger_curvature f g h :: menger_table P'
    | _ => []
    end.
End MengerDerived.
