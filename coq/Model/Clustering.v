(* Model/Clustering.v — the four single-pass 1-D linkage loops of clustering.py, generic over N : Num,
   and the declarative threshold rule they are proved (Proofs/ClusteringFacts.v) to implement.
   Everything is built from  - / abs  comparisons and NumPy's pairwise np.sum, so the FloatNum run makes
   bit-for-bit the implementation's comparisons (ties included). *)
From Coq Require Import ZArith List Bool Arith.
From Knee Require Import Num NpList.
Import ListNotations.
Local Open Scope num_scope.

Inductive linkage := Single | Complete | Centroid | Average.

Section Clustering.
  Context {N : Num}.

  (* py: clustering.py:44, 77, 112, 155   length = points[-1, 0] - points[0, 0] *)
  Definition xrange (xs : list (T N)) : T N := last xs zero -! hd zero xs.

  (* py: clustering.py:50, 84, 120   math.fabs(a - b)/length *)
  Definition ndist (len a b : T N) : T N := abs (a -! b) /! len.

  (* py: clustering.py:49-53 single_linkage   (prev = points[i-1][0]; `distance >= t`) *)
  Fixpoint single_go (len t prev : T N) (rest : list (T N)) (ci : nat) : list nat :=
    match rest with
    | [] => []
    | x :: r =>
        if t <=?! ndist len x prev then S ci :: single_go len t x r (S ci)
        else ci :: single_go len t x r ci
    end.

  (* py: clustering.py:83-88 complete_linkage   (anchor = points[cluster_point_idx][0]; `distance >= t`) *)
  Fixpoint complete_go (len t anchor : T N) (rest : list (T N)) (ci : nat) : list nat :=
    match rest with
    | [] => []
    | x :: r =>
        if t <=?! ndist len x anchor then S ci :: complete_go len t x r (S ci)
        else ci :: complete_go len t anchor r ci
    end.

  (* py: clustering.py:124-125   (cluster_size/(cluster_size+1)) * cluster_center + (1/(cluster_size+1)) * points[i][0]
     Python int/int is the correctly rounded quotient = the double division of the two (small) integers *)
  Definition centroid_update (c : T N) (s : nat) (x : T N) : T N :=
    (ofN s /! ofN (s + 1)) *! c +! (one /! ofN (s + 1)) *! x.

  (* py: clustering.py:119-131 centroid_linkage   (NOTE the test is `distance < t` with the new cluster in the else branch) *)
  Fixpoint centroid_go (len t c : T N) (s : nat) (rest : list (T N)) (ci : nat) : list nat :=
    match rest with
    | [] => []
    | x :: r =>
        if ndist len x c <?! t then ci :: centroid_go len t (centroid_update c s x) (S s) r ci
        else S ci :: centroid_go len t x 1 r (S ci)
    end.

  (* py: clustering.py:162-164   np.sum(np.abs(cluster_points - points[i][0]))/(len(cluster_points)*length)
     np.sum on a fresh contiguous float64 array = pairwise summation (NpList.np_sum) *)
  Definition avg_dist (len : T N) (ms : list (T N)) (x : T N) : T N :=
    np_sum (map (fun c => abs (c -! x)) ms) /! (ofN (length ms) *! len).

  (* py: clustering.py:161-168 average_linkage   (cluster_points = points[idx:i, 0]; `distance >= t`) *)
  Fixpoint average_go (xs : list (T N)) (len t : T N) (idx i : nat) (rest : list (T N)) (ci : nat) : list nat :=
    match rest with
    | [] => []
    | x :: r =>
        if t <=?! avg_dist len (slice xs idx i) x then S ci :: average_go xs len t i (S i) r (S ci)
        else ci :: average_go xs len t idx (S i) r ci
    end.

  (* the four public functions; None = the IndexError of points[-1, 0] on an empty array *)
  Definition linkage_labels (lk : linkage) (xs : list (T N)) (t : T N) : option (list nat) :=
    match xs with
    | [] => None
    | x0 :: rest =>
        let len := xrange xs in
        Some (0 :: match lk with
                   | Single => single_go len t x0 rest 0
                   | Complete => complete_go len t x0 rest 0
                   | Centroid => centroid_go len t x0 1 rest 0
                   | Average => average_go xs len t 0 1 rest 0
                   end)
    end.

  (* ------------------------------------------------------------------------------------------
     the declarative rule (property C11): what is compared with t at point i, as a function of the
     MEMBERS of the cluster that point i-1 belongs to *)

  (* the running centroid of a non-empty member list (size is carried along) *)
  Definition centroid_of (ms : list (T N)) : T N * nat :=
    fold_left (fun cs x => (centroid_update (fst cs) (snd cs) x, S (snd cs))) (tl ms) (hd zero ms, 1).

  Definition link_D (lk : linkage) (len : T N) (ms : list (T N)) (x : T N) : T N :=
    match lk with
    | Single => ndist len x (last ms zero)             (* gap to the previous point *)
    | Complete => ndist len x (hd zero ms)             (* distance to the cluster's first point *)
    | Centroid => ndist len x (fst (centroid_of ms))   (* distance to the running centroid *)
    | Average => avg_dist len ms x                     (* mean distance to the members *)
    end.

  (* the comparison each loop makes: `d >= t` (three loops), `not (d < t)` (centroid) — identical unless d or t is NaN *)
  Definition newb (lk : linkage) (t d : T N) : bool :=
    match lk with
    | Centroid => negb (d <?! t)
    | _ => t <=?! d
    end.
End Clustering.

(* first position whose label satisfies f *)
Fixpoint first_index (f : nat -> bool) (l : list nat) : nat :=
  match l with
  | [] => 0
  | a :: r => if f a then 0 else S (first_index f r)
  end.
(* first index of the cluster (run of equal labels) that point i-1 belongs to *)
Definition cstart (lab : list nat) (i : nat) : nat := first_index (Nat.eqb (nth (i - 1) lab 0)) lab.

(* consecutive labels differ by 0 or 1 *)
Fixpoint steps01 (lab : list nat) : bool :=
  match lab with
  | a :: ((b :: _) as r) => ((b =? a) || (b =? S a)) && steps01 r
  | _ => true
  end.
Definition shapeb (n : nat) (lab : list nat) : bool :=
  (length lab =? n) && (hd 1 lab =? 0) && steps01 lab.
Definition nclusters (lab : list nat) : nat := S (last lab 0).

Section Rule.
  Context {N : Num}.
  (* members of the current cluster when point i is examined, read off the labels *)
  Definition members (xs : list (T N)) (lab : list nat) (i : nat) : list (T N) := slice xs (cstart lab i) i.
  (* the linkage distance of point i *)
  Definition link_dist (lk : linkage) (xs : list (T N)) (lab : list nat) (i : nat) : T N :=
    link_D lk (xrange xs) (members xs lab i) (nth i xs zero).
  (* label i = label (i-1) + [t <= link_dist i] *)
  Definition rule_at (lk : linkage) (xs : list (T N)) (t : T N) (lab : list nat) (i : nat) : bool :=
    nth i lab 0 =? nth (i - 1) lab 0 + (if newb lk t (link_dist lk xs lab i) then 1 else 0).
  Definition rule_holdsb (lk : linkage) (xs : list (T N)) (t : T N) (lab : list nat) : bool :=
    forallb (rule_at lk xs t lab) (seq 1 (length xs - 1)).
  (* the predicate of C11 (shape + rule), used in the theorem and to judge the implementation's labels *)
  Definition c11_holdsb (lk : linkage) (xs : list (T N)) (t : T N) (lab : list nat) : bool :=
    shapeb (length xs) lab && rule_holdsb lk xs t lab.
End Rule.
