(* Model/MultiKnee.v — multi_knee.multi_knee: the work-stack loop that turns a single-knee detector into a
   multi-knee one, over two oracles keyed by ABSOLUTE indices of the curve:
     straight l r  = what the code computes as the straightness of points[l:r]
                     (lf.smape_points / lf.linear_r2_points of the end-point fit lf.linear_fit_points(points[l:r]))
     knee1 l r     = get_knee(points[l:r]) : index RELATIVE to l, None = the detector returned None (Kneedle)
   py: multi_knee.py:28-75 multi_knee *)
From Coq Require Import List Arith Bool.
From Knee Require Import Num NpList.
Import ListNotations.
Local Open Scope num_scope.

(* py: multi_knee.py:54,60,65  the three ways the `cost` argument is looked at: `is r2`, `is rmspe`, anything else *)
Inductive mk_cost := MkSmape | MkR2 | MkRmspe.

Section MultiKnee.
  Context {N : Num}.
  Variable cost : mk_cost.
  Variable straight : nat -> nat -> T N.
  Variable knee1 : nat -> nat -> option nat.
  Variable t1 : T N.
  Variable t2 : nat.

  (* py: multi_knee.py:53-63  r (len(pt) = r - l: the stack only ever holds 0 <= l <= r <= len(points)) *)
  Definition mk_r (l r : nat) : T N :=
    if r - l <=? 2 then (match cost with MkRmspe => zero | _ => one end) else straight l r.
  (* py: multi_knee.py:65  curved = r < t1 if cost is r2 else r >= t1 *)
  Definition mk_curved (l r : nat) : bool :=
    match cost with MkR2 => mk_r l r <?! t1 | _ => t1 <=?! mk_r l r end.
  (* py: multi_knee.py:52,67-69  one pop: Some k = a knee was found at relative index k *)
  Definition mk_step (l r : nat) : option nat :=
    if t2 <? r - l then (if mk_curved l r then knee1 l r else None) else None.

  (* py: multi_knee.py:48-73  the while loop.  The Python list used as a stack is a Coq list with its top at the head
     (append (left, idx+1) then (idx+1, right): the right child is popped first).  `trace` = the popped ranges, latest
     first; its length is the number of loop iterations.  None = fuel exhausted. *)
  Fixpoint mk_loop (fuel : nat) (stack : list (nat * nat)) (knees : list nat) (trace : list (nat * nat))
    : option (list nat * list (nat * nat)) :=
    match stack with
    | [] => Some (knees, trace)
    | (l, r) :: st =>
        match fuel with
        | O => None
        | S f =>
            match mk_step l r with
            | Some k =>
                let idx := k + l in
                mk_loop f ((idx + 1, r) :: (l, idx + 1) :: st) (knees ++ [idx]) ((l, r) :: trace)
            | None => mk_loop f st knees ((l, r) :: trace)
            end
        end
    end.

  (* py: multi_knee.py:45-46,74-75  (sorted knees, popped ranges) for a curve of n points; fuel 2n+1 always suffices
     when the detector answers inside its slice (theorem mk_total) *)
  Definition multi_knee (n : nat) : option (list nat * list (nat * nat)) :=
    match mk_loop (2 * n + 1) [(0, n)] [] [] with
    | Some (ks, tr) => Some (sort_nat ks, tr)
    | None => None
    end.

  (* the recursive specification: knees of points[l:r] in ascending order, absolute indices *)
  Fixpoint mk_rec (fuel : nat) (l r : nat) : list nat :=
    match fuel with
    | O => []
    | S f =>
        match mk_step l r with
        | Some k => mk_rec f l (k + l + 1) ++ [k + l] ++ mk_rec f (k + l + 1) r
        | None => []
        end
    end.
  Definition mk_spec (l r : nat) : list nat := mk_rec (r - l) l r.
End MultiKnee.

(* the oracles of the slice points[a:]: a function of the sub-array only, so the same table shifted *)
Definition shift2 {A} (a : nat) (f : nat -> nat -> A) : nat -> nat -> A := fun l r => f (l + a) (r + a).

(* The predicate the theorems are stated with and the implementation is judged by.  0 = holds; k = conjunct k false.
   lo    the detector's lower bound on a relative knee index (0 Menger, 1 otherwise)
   n     number of points;  step0 = mk_step 0 n (gates and detector on the whole curve)
   out   what multi_knee(points) returned: (knee array, number of loop iterations); None = exception / no return
   outL  what multi_knee(points[:k+1]) returned, outR what multi_knee(points[k+1:]) returned (only looked at if step0 = Some k) *)
Definition all_in_range (lo n : nat) (ks : list nat) : bool := forallb (fun i => (lo <=? i) && (i + 2 <=? n)) ks.
Definition mk_holds (lo n : nat) (step0 : option nat) (out : option (list nat * nat)) (outL outR : option (list nat)) : nat :=
  match out with
  | None => 1
  | Some (ks, pops) =>
      if negb (strictly_increasing ks) then 2
      else if negb (all_in_range lo n ks) then 3
      else if negb (pops <=? Nat.max 1 (2 * n - 1)) then 4
      else match step0 with
           | None => if nat_list_eqb ks [] then 0 else 5
           | Some k =>
               match outL, outR with
               | Some kl, Some kr => if nat_list_eqb ks (kl ++ [k] ++ map (fun i => i + (k + 1)) kr) then 0 else 5
               | _, _ => 6
               end
           end
  end.

(* what is observed of a run: (knee array, number of loop iterations) / the knee array alone *)
Definition mk_obs (o : option (list nat * list (nat * nat))) : option (list nat * nat) :=
  match o with Some (ks, tr) => Some (ks, length tr) | None => None end.
Definition mk_knees (o : option (list nat * list (nat * nat))) : option (list nat) :=
  match o with Some (ks, _) => Some ks | None => None end.

(* the two sub-calls of the decomposition, on the model: multi_knee(points[:k+1]) and multi_knee(points[k+1:])
   where k is the answer of the first pop on the whole curve *)
Section SubCalls.
  Context {N : Num}.
  Variable cost : mk_cost.
  Variable straight : nat -> nat -> T N.
  Variable knee1 : nat -> nat -> option nat.
  Variable t1 : T N.
  Variable t2 : nat.
  Variable n : nat.
  Definition mk_runL (k : nat) := multi_knee cost straight knee1 t1 t2 (k + 1).
  Definition mk_runR (k : nat) :=
    multi_knee cost (shift2 (k + 1) straight) (shift2 (k + 1) knee1) t1 t2 (n - (k + 1)).
  Definition mk_subL : option (list nat) :=
    match mk_step cost straight knee1 t1 t2 0 n with Some k => mk_knees (mk_runL k) | None => None end.
  Definition mk_subR : option (list nat) :=
    match mk_step cost straight knee1 t1 t2 0 n with Some k => mk_knees (mk_runR k) | None => None end.
End SubCalls.
