(* Model/Filters.v — postprocessing.filter_worst_knees / filter_corner_knees / select_corner_knees and the
   rectangle / intersection-over-union formulas of knee_ranking.py they use, generic over N : Num.
   The IoU is built from Python's min / max (NOT np.minimum / np.maximum), - * / and abs only, so its FloatNum
   value is the implementation's double and the comparisons with t are bit-identical. *)
From Coq Require Import ZArith List Bool Arith.
From Knee Require Import Num NpList.
Import ListNotations.
Local Open Scope num_scope.

Section Filters.
  Context {N : Num}.
  Definition point : Type := (T N * T N)%type.

  (* points[k]; points[k][1] *)
  Definition pt (pts : list point) (k : nat) : point := nth k pts (zero, zero).
  Definition height (pts : list point) (k : nat) : T N := snd (pt pts k).

  (* ---------------------------------------------------------------------------------------- *)
  (* py: postprocessing.py:119-125  the loop of filter_worst_knees: `if h <= h_min: append; h_min = h` *)
  Fixpoint worst_go (h : nat -> T N) (hmin : T N) (ks : list nat) : list nat :=
    match ks with
    | [] => []
    | k :: r => if h k <=?! hmin then k :: worst_go h (h k) r else worst_go h hmin r
    end.
  (* py: postprocessing.py:112-127 filter_worst_knees  (len(knees) <= 1 returns knees unchanged) *)
  Definition filter_worst_h (h : nat -> T N) (ks : list nat) : list nat :=
    match ks with
    | [] => []
    | k0 :: r => k0 :: worst_go h (h k0) r
    end.
  Definition filter_worst (pts : list point) (ks : list nat) : list nat := filter_worst_h (height pts) ks.

  (* the declarative greedy running-minimum subsequence, by recursion on PREFIXES (right to left):
     the kept knees of  pre ++ [k]  are those of pre, plus k when pre is empty or
     height k <= height of the lowest (= most recently) kept knee of pre.   Result is most-recent-first. *)
  Fixpoint running_min_rev (h : nat -> T N) (rks : list nat) : list nat :=
    match rks with
    | [] => []
    | k :: earlier =>
        let kept := running_min_rev h earlier in
        match kept with
        | [] => [k]
        | m :: _ => if h k <=?! h m then k :: kept else kept
        end
    end.
  Definition running_min_spec (h : nat -> T N) (ks : list nat) : list nat := rev (running_min_rev h (rev ks)).

  (* the order-theoretic reading (Tier O): a knee is kept iff its height is <= the height of EVERY earlier knee *)
  Fixpoint prefix_min_go (h : nat -> T N) (seen : list nat) (ks : list nat) : list nat :=
    match ks with
    | [] => []
    | k :: r =>
        if forallb (fun j => h k <=?! h j) seen then k :: prefix_min_go h (seen ++ [k]) r
        else prefix_min_go h (seen ++ [k]) r
    end.
  Definition prefix_min_spec (h : nat -> T N) (ks : list nat) : list nat := prefix_min_go h [] ks.

  (* ---------------------------------------------------------------------------------------- *)
  (* py: knee_ranking.py:85-98 rect   Python min(a, b) = b if b < a else a;  max(a, b) = b if b > a else a *)
  Definition rect (p1 p2 : point) : point * point :=
    let '(p1x, p1y) := p1 in
    let '(p2x, p2y) := p2 in
    ((pymin p1x p2x, pymin p1y p2y), (pymax p1x p2x, pymax p1y p2y)).

  (* py: knee_ranking.py:56-82 rect_overlap *)
  Definition rect_overlap (amin amax bmin bmax : point) : T N :=
    let dx := pymax zero (pymin (fst amax) (fst bmax) -! pymax (fst amin) (fst bmin)) in
    let dy := pymax zero (pymin (snd amax) (snd bmax) -! pymax (snd amin) (snd bmin)) in
    let overlap := dx *! dy in
    if zero <?! overlap then
      let a0 := abs (fst amax -! fst amin) in
      let a1 := abs (snd amax -! snd amin) in
      let b0 := abs (fst bmax -! fst bmin) in
      let b1 := abs (snd bmax -! snd bmin) in
      let total_area := a0 *! a1 +! b0 *! b1 -! overlap in
      overlap /! total_area
    else zero.

  (* py: postprocessing.py:52-56 / 86-90   p0, p1, p2 = points[idx-1:idx+2]; corner0 = (p0.x, p2.y);
     IoU of rect(corner0, p1) and rect(p0, p2).  The neighbours are the knee's neighbours IN THE CURVE. *)
  Definition corner_iou (pts : list point) (k : nat) : T N :=
    let p0 := pt pts (k - 1) in
    let p1 := pt pts k in
    let p2 := pt pts (k + 1) in
    let corner0 := (fst p0, snd p2) in
    let '(amin, amax) := rect corner0 p1 in
    let '(bmin, bmax) := rect p0 p2 in
    rect_overlap amin amax bmin bmax.

  (* py: postprocessing.py:51 / 85   idx-1 >= 0 and idx+1 < len(points) *)
  Definition has_nb (n k : nat) : bool := (1 <=? k) && (k + 1 <? n).

  (* py: postprocessing.py:47-63 filter_corner_knees:  `if p < t: append` ; knees without both neighbours are kept *)
  Definition corner_keepb (pts : list point) (t : T N) (k : nat) : bool :=
    if has_nb (length pts) k then corner_iou pts k <?! t else true.
  Definition filter_corner (pts : list point) (ks : list nat) (t : T N) : list nat :=
    filter (corner_keepb pts t) ks.

  (* py: postprocessing.py:81-95 select_corner_knees:  `if p >= t: append` ; knees without both neighbours are dropped *)
  Definition corner_selectb (pts : list point) (t : T N) (k : nat) : bool :=
    if has_nb (length pts) k then t <=?! corner_iou pts k else false.
  Definition select_corner (pts : list point) (ks : list nat) (t : T N) : list nat :=
    filter (corner_selectb pts t) ks.
End Filters.

(* ------------------------------------------------------------------------------------------ *)
(* boolean predicates of C13 (used in the theorems and to judge the implementation's outputs) *)

(* order-preserving sublist *)
Fixpoint sublistb (s l : list nat) : bool :=
  match s, l with
  | [], _ => true
  | _ :: _, [] => false
  | a :: s', b :: l' => if a =? b then sublistb s' l' else sublistb s l'
  end.
Definition memb (k : nat) (l : list nat) : bool := existsb (Nat.eqb k) l.

Section Pred.
  Context {N : Num}.
  (* worst-knee filter: the output is the greedy running-minimum subsequence, and filtering it again changes nothing *)
  Definition worst_holdsb (pts : list (@point N)) (ks out out2 : list nat) : bool :=
    nat_list_eqb out (running_min_spec (height pts) ks) && nat_list_eqb out2 out.

  (* corner filter F / selector S on the knee list ks:
     both order-preserving sublists of ks; every knee is in exactly one of them; a knee with both neighbours is
     selected iff t <= IoU and filtered iff IoU < t; a knee at either end of the curve is kept by the filter *)
  Definition corner_rule_at (pts : list (@point N)) (t : T N) (lF lS : list nat) (k : nat) : bool :=
    xorb (memb k lF) (memb k lS) &&
    (if has_nb (length pts) k
     then Bool.eqb (memb k lS) (t <=?! corner_iou pts k) && Bool.eqb (memb k lF) (corner_iou pts k <?! t)
     else memb k lF).
  Definition corner_holdsb (pts : list (@point N)) (ks : list nat) (t : T N) (lF lS : list nat) : bool :=
    sublistb lF ks && sublistb lS ks && forallb (corner_rule_at pts t lF lS) ks.

  (* the rule of ONE call (Tier S, no order law): the output is an order-preserving sublist of ks and a knee is in it
     exactly when the code's own comparison says so.  Used to judge every call of a multi-call sequence on its own. *)
  Definition filter_rule_holdsb (pts : list (@point N)) (ks : list nat) (t : T N) (lF : list nat) : bool :=
    sublistb lF ks && forallb (fun k => Bool.eqb (memb k lF) (corner_keepb pts t k)) ks.
  Definition select_rule_holdsb (pts : list (@point N)) (ks : list nat) (t : T N) (lS : list nat) : bool :=
    sublistb lS ks && forallb (fun k => Bool.eqb (memb k lS) (corner_selectb pts t k)) ks.
End Pred.
