(* Model/EvenPoints.v — postprocessing.add_points_even and add_points_even_knees.
   Indices are naturals; the two float->int conversions are `ceilZ` (math.ceil) and integer division
   (`int((right-left)/number_points)`: true division followed by truncation equals integer division for
   operands below 2^53 — recorded assumption); normalised widths / heights are computed in the model
   (-, fabs, /, comparisons: bit-reproducible); rdp.mapping is the C07 model; the final filter_worst_knees
   is the local running-minimum definition `rmf`.  None = the code raises.
   py: postprocessing.py:282-365 add_points_even; 367-447 add_points_even_knees (as of commit 1b3ec6b); 98-127 filter_worst_knees *)
From Coq Require Import List Arith Bool ZArith.
From Knee Require Import Num NpList Model.Mapping.
Import ListNotations.
Local Open Scope num_scope.

(* consecutive pairs of a list: the retained segments / the gaps *)
Fixpoint consecutive (l : list nat) : list (nat * nat) :=
  match l with
  | a :: ((b :: _) as l') => (a, b) :: consecutive l'
  | _ => []
  end.

(* py: postprocessing.py:341-344  idx = left; for _ in range(number_points): idx = idx + inc; append(idx) *)
Fixpoint steps (idx inc k : nat) : list nat :=
  match k with
  | O => []
  | S k' => (idx + inc) :: steps (idx + inc) inc k'
  end.

Section Even.
  Context {N : Num}.
  Variable xs ys : list (T N).                      (* points[:,0], points[:,1] *)
  Variable tx ty : T N.

  Definition xat (i : nat) : T N := nth i xs zero.
  Definition yat (i : nat) : T N := nth i ys zero.

  (* Python float division: ZeroDivisionError on a zero divisor *)
  Definition pydiv (a b : T N) : option (T N) := if b =?! zero then None else Some (a /! b).

  (* py: postprocessing.py:308-311  dx, dy = fabs(max - min) over the complete trace *)
  Definition span_x : T N := abs (np_max xs -! np_min xs).
  Definition span_y : T N := abs (np_max ys -! np_min ys).

  (* py: postprocessing.py:320-321, 338  normalised width / height of the index pair (l, r) *)
  Definition pdx (l r : nat) : option (T N) := pydiv (abs (xat r -! xat l)) span_x.
  Definition pdy (l r : nat) : option (T N) := pydiv (abs (yat r -! yat l)) span_y.

  (* py: postprocessing.py:322  pdx > (2.0*tx) and pdy > ty   (both quotients are computed first) *)
  Definition qualifies (l r : nat) : option bool :=
    match pdx l r with
    | None => None
    | Some w => match pdy l r with
                | None => None
                | Some h => Some (((two *! tx) <?! w) && (ty <?! h))
                end
    end.

  (* py: postprocessing.py:338-339  number_points = int(math.ceil(pdx/(2.0*tx))) *)
  Definition count (l r : nat) : option Z :=
    match pdx l r with
    | None => None
    | Some w => match pydiv w (two *! tx) with
                | None => None
                | Some q => ceilZ q                 (* math.ceil raises on nan / inf *)
                end
    end.

  (* py: postprocessing.py:336-344 one candidate pair *)
  Definition even_points (l r : nat) : option (list nat) :=
    match count l r with
    | None => None
    | Some np =>
        if (np =? 0)%Z then None                     (* division by zero *)
        else let inc := Z.quot (Z.of_nat (r - l)) np in   (* int((right-left)/number_points) *)
             Some (steps l (Z.to_nat inc) (Z.to_nat np))
    end.

  (* py: postprocessing.py:98-127 filter_worst_knees: keep a knee iff it is not higher than the last kept one *)
  Fixpoint rmf_go (hmin : T N) (ks : list nat) : list nat :=
    match ks with
    | [] => []
    | k :: ks' => if yat k <=?! hmin then k :: rmf_go (yat k) ks' else rmf_go hmin ks'
    end.
  Definition rmf (ks : list nat) : list nat :=
    match ks with
    | [] => []
    | k :: ks' => k :: rmf_go (yat k) ks'
    end.

  (* py: postprocessing.py:353-365 / 435-447  concatenate, astype(int), np.unique, sort, filter_worst_knees *)
  Definition finish (knees new_knees : list nat) (extremes : bool) : list nat :=
    rmf (np_unique (knees ++ new_knees ++ (if extremes then [0; length xs - 1] else []))).

  (* ---------------- add_points_even ---------------- *)

  (* py: postprocessing.py:317-324  positions (in the reduced curve) of the qualifying segments' ends;
     `red` is the part of the reduced index list from position i-1 on *)
  Fixpoint cand_loop (red : list nat) (i : nat) : option (list nat) :=
    match red with
    | a :: ((b :: _) as red') =>
        match qualifies a b with
        | None => None
        | Some q => option_map (fun rest => if q then (i - 1) :: i :: rest else rest) (cand_loop red' (S i))
        end
    | _ => Some []
    end.

  (* py: postprocessing.py:335-344  candidates taken two at a time *)
  Fixpoint pairs_loop (cands : list nat) : option (list nat) :=
    match cands with
    | l :: r :: rest =>
        match even_points l r with
        | None => None
        | Some pts => option_map (app pts) (pairs_loop rest)
        end
    | [_] => None                                    (* candidates[i+1]: IndexError *)
    | [] => Some []
    end.

  (* py: postprocessing.py:282-365 *)
  Definition add_points_even (red : list nat) (rem : list row) (knees : list nat) (extremes : bool) : option (list nat) :=
    match cand_loop red 1 with
    | None => None
    | Some cands =>
        match mapping cands red rem true with
        | None => None
        | Some mc =>
            match pairs_loop mc with
            | None => None
            | Some new_knees =>
                match mapping knees red rem true with
                | None => None
                | Some mk => Some (finish mk new_knees extremes)
                end
            end
        end
    end.

  (* ---------------- add_points_even_knees ---------------- *)

  (* py: postprocessing.py:407-414 the gaps between consecutive knees *)
  Fixpoint between (ks : list nat) : option (list (nat * nat)) :=
    match ks with
    | a :: ((b :: _) as ks') =>
        match qualifies a b with
        | None => None
        | Some q => option_map (fun rest => if q then (a, b) :: rest else rest) (between ks')
        end
    | _ => Some []
    end.

  (* py: postprocessing.py:425-433 *)
  Fixpoint gaps_loop (cands : list (nat * nat)) : option (list nat) :=
    match cands with
    | (l, r) :: rest =>
        match even_points l r with
        | None => None
        | Some pts => option_map (app pts) (gaps_loop rest)
        end
    | [] => Some []
    end.

  (* py: postprocessing.py:367-447; an empty knee array is one gap (0, n-1) followed by the degenerate gap (n-1, n-1):
     right = knees[0] if len(knees) > 0 else len(points)-1;  left = knees[-1] if len(knees) > 0 else len(points)-1 *)
  Definition add_points_even_knees (knees : list nat) (extremes : bool) : option (list nat) :=
    let nl := length xs - 1 in
    let k0 := hd nl knees in
    let kl := last knees nl in
    match qualifies 0 k0, between knees, qualifies kl nl with
    | Some q0, Some mid, Some q1 =>
        match gaps_loop ((if q0 then [(0, k0)] else []) ++ mid ++ (if q1 then [(kl, nl)] else [])) with
        | None => None
        | Some new_knees => Some (finish knees new_knees extremes)
        end
    | _, _, _ => None
    end.

  (* ---------------- the declarative reading (what the theorems compare the loops with) ---------------- *)

  (* the segments (l, r) among `segs` with normalised width > 2 tx and normalised height > ty *)
  Fixpoint qual_segs (segs : list (nat * nat)) : option (list (nat * nat)) :=
    match segs with
    | [] => Some []
    | (l, r) :: rest =>
        match qualifies l r with
        | None => None
        | Some q => option_map (fun t => if q then (l, r) :: t else t) (qual_segs rest)
        end
    end.
  (* the c = ceil(w/(2 tx)) evenly index-spaced points l + j * ((r-l) div c), j = 1..c *)
  Definition spec_points (l r : nat) : option (list nat) :=
    match count l r with
    | None => None
    | Some c => if (c =? 0)%Z then None
                else Some (map (fun j => l + j * ((r - l) / Z.to_nat c)) (seq 1 (Z.to_nat c)))
    end.
  Fixpoint seg_points_all (qs : list (nat * nat)) : option (list nat) :=
    match qs with
    | [] => Some []
    | (l, r) :: rest =>
        match spec_points l r with
        | None => None
        | Some p => option_map (app p) (seg_points_all rest)
        end
    end.
  (* running-minimum filter of the sorted duplicate-free union of knees, candidates and (optionally) both ends *)
  Definition even_spec (segs : list (nat * nat)) (knees : list nat) (extremes : bool) : option (list nat) :=
    match qual_segs segs with
    | None => None
    | Some qs =>
        match seg_points_all qs with
        | None => None
        | Some cands => Some (rmf (np_unique (knees ++ cands ++ (if extremes then [0; length xs - 1] else []))))
        end
    end.
End Even.

(* the specification of each function *)
Definition even_spec_reduced {N : Num} (xs ys : list (T N)) (tx ty : T N) (red knees : list nat) (extremes : bool) :=
  even_spec xs ys tx ty (consecutive red) (map (fun i => nth i red 0) knees) extremes.
(* the gaps of the knees-as-markers variant: curve start .. first knee, consecutive knees, last knee .. curve end;
   for a non-empty knee list these are the consecutive pairs of 0 :: knees ++ [n-1] (EvenPointsFacts.knee_gaps_consecutive),
   for the empty list the whole curve (0, n-1) and the degenerate gap (n-1, n-1) *)
Definition knee_gaps (nl : nat) (knees : list nat) : list (nat * nat) :=
  (0, hd nl knees) :: consecutive knees ++ [(last knees nl, nl)].
Definition even_spec_knees {N : Num} (xs ys : list (T N)) (tx ty : T N) (knees : list nat) (extremes : bool) :=
  even_spec xs ys tx ty (knee_gaps (length xs - 1) knees) knees extremes.
