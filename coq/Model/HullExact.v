(* Model/HullExact.v — exact integer arithmetic as a Num instance.  Used by the C18 judge to evaluate the
   geometric predicates of Model/Hull.v with the EXACT orientation sign: binary64 coordinates are dyadic
   rationals, so after multiplying all of them by one power of two they are integers, and the sign of the
   cross product of _ccw is invariant under that scaling.  Only + - * and comparisons are meaningful here. *)
From Coq Require Import ZArith List Bool.
From Knee Require Import Num.
Local Open Scope Z_scope.

Definition ZNum : Num := {|
  T := Z;
  zero := 0;
  one := 1;
  add := Z.add;
  sub := Z.sub;
  mul := Z.mul;
  div := Z.div;            (* not used by the hull predicates *)
  neg := Z.opp;
  abs := Z.abs;
  sqrt := Z.sqrt;          (* not used *)
  ltb := Z.ltb;
  leb := Z.leb;
  eqb := Z.eqb;
  isnan := fun _ => false;
  ofZ := fun z => z;
  truncZ := fun z => Some z;
  ceilZ := fun z => Some z;
  floorZ := fun z => Some z;
  ln := fun z => z;        (* not used *)
|}.
