(* Model/ExtrasZ.v — zmethod.knees2 (the second Z-method variant; DESIGN.md 2.8 "not modelled at all").
   py: zmethod.py:60-131 knees2.
   Oracles (non-bit-reproducible or third-party primitives, given as values by the harness):
     yd2  = uts.gradient.csd(x, y)                      (third-party)
     z    = uts.zscore.zscore_array(x, yd2)             (third-party; Outlier.zscore only)
     q    = np.percentile(yd2, [25, 75])                (NumPy's interpolating percentile; Outlier.iqr only)
   Everything else is computed here: the steps (Python's built-in max / min), np.median (sort + mean of the middle pair),
   the thresholds, pp.filter_worst_knees / pp.filter_corner_knees(t = 0.3) (Model/Filters.v), the neighbourhood tests,
   pp.rank_corners, np.argmax, and the fixed-point loop. *)
From Coq Require Import ZArith List Bool Arith.
From Knee Require Import Num NpList Model.Geometry Model.Filters.
Import ListNotations.
Local Open Scope num_scope.

(* py: zmethod.py:34-42 class Outlier *)
Inductive outlier := OZscore | OIqr | OHampel.

Section Knees2.
  Context {N : Num}.
  Local Notation point := (@point N).

  Definition nan_ : T N := zero /! zero.
  (* Python's built-in min over the elements: `if item < current: current = item` *)
  Definition py_min_list (l : list (T N)) : T N :=
    match l with [] => zero | x :: l' => fold_left pymin l' x end.
  (* py: zmethod.py:67-68   x_step = (max(x) - min(x))*dx *)
  Definition k2_step (v : list (T N)) (d : T N) : T N := (py_max_list v -! py_min_list v) *! d.

  (* np.median of a 1-D float array: NaN if any element is NaN (or the array is empty); otherwise the middle element of the
     sorted array (np.mean of one element) or np.mean of the middle pair = (a + b) / 2 *)
  Definition np_median (l : list (T N)) : T N :=
    if existsb isnan l then nan_ else
    let s := sort_by (fun a b : T N => a <=?! b) l in
    let n := length l in
    if n =? 0 then nan_
    else if Nat.odd n then zero +! nth (n / 2) s zero
    else (zero +! (nth (n / 2 - 1) s zero +! nth (n / 2) s zero)) /! two.

  (* [i for i in range(len(v)) if v[i] >= thr] *)
  Definition ge_idx (v : list (T N)) (thr : T N) : list nat :=
    filter (fun i => thr <=?! nth i v zero) (seq 0 (length v)).

  (* py: zmethod.py:73-89 the three outlier rules *)
  Definition k2_candidates (mode : outlier) (yd2 z : list (T N)) (q : T N * T N) : list nat :=
    match mode with
    | OIqr =>
        let '(q1, q3) := q in
        let iqr := q3 -! q1 in
        ge_idx yd2 (q3 +! ((ofZ 3 /! ofZ 2) *! iqr))                       (* q3 + (1.5 * iqr) *)
    | OHampel =>
        let med := np_median yd2 in
        let dev := map (fun v => abs (v -! med)) yd2 in
        ge_idx yd2 (np_median dev *! (ofZ 9 /! ofZ 2))                     (* np.median(t) * 4.5 *)
    | OZscore => ge_idx z (np_median z)
    end.

  Variable P : list point.
  Definition xof (i : nat) : T N := fst (nth i P (zero, zero)).
  Definition yof (i : nat) : T N := snd (nth i P (zero, zero)).

  (* py: postprocessing.py:487-508 rank_corners   d0 = x[knees[0]] - x[0]; d_i = x[knees[i]] - x[knees[i-1]] *)
  Fixpoint rank_corners_go (prev : nat) (ks : list nat) : list (T N) :=
    match ks with [] => [] | k :: r => (xof k -! xof prev) :: rank_corners_go k r end.
  Definition rank_corners (ks : list nat) : list (T N) := rank_corners_go 0 ks.

  Section Round.
    Variable x_step y_step : T N.
    (* py: zmethod.py:108   the candidates within x_step and y_step of candidate i *)
    Definition k2_nbhd (cands : list nat) (i : nat) : list nat :=
      filter (fun j => (abs (xof j -! xof i) <=?! x_step) && (abs (yof j -! yof i) <=?! y_step)) cands.
    (* py: zmethod.py:111-122   alone in its neighbourhood, or the best-ranked corner of it *)
    Definition k2_keepb (cands : list nat) (i : nat) : bool :=
      match k2_nbhd cands i with
      | [] => false
      | [j] => j =? i
      | nb => nth (argmax (rank_corners nb)) nb 0 =? i
      end.
    Definition k2_round (cands : list nat) : list nat := filter (k2_keepb cands) cands.
    (* py: zmethod.py:97-127   repeat until a round keeps every candidate.  Explicit fuel; Proofs/ExtrasZFacts.v: length + 1 suffices *)
    Fixpoint k2_loop (fuel : nat) (cands : list nat) : option (list nat) :=
      match fuel with
      | O => None
      | S f => let best := k2_round cands in
               if nat_list_eqb best cands then Some cands else k2_loop f best
      end.
    (* the successive candidate lists *)
    Fixpoint k2_orbit (fuel : nat) (cands : list nat) : list (list nat) :=
      match fuel with O => [] | S f => cands :: k2_orbit f (k2_round cands) end.
  End Round.

  (* the vector the candidates index into *)
  Definition k2_src (mode : outlier) (yd2 z : list (T N)) : list (T N) := match mode with OZscore => z | _ => yd2 end.
  (* the filtered candidate list the loop starts from *)
  Definition k2_start (mode : outlier) (yd2 z : list (T N)) (q : T N * T N) : list nat :=
    filter_corner P (filter_worst P (k2_candidates mode yd2 z q)) (ofZ 3 /! ofZ 10).
  (* py: zmethod.py:60-131 knees2 *)
  Definition knees2 (dx dy : T N) (mode : outlier) (yd2 z : list (T N)) (q : T N * T N) : option (list nat) :=
    let x_step := k2_step (map fst P) dx in
    let y_step := k2_step (map snd P) dy in
    let c2 := k2_start mode yd2 z q in
    k2_loop x_step y_step (length c2 + 1) c2.

  (* the judge's predicate on an output: an order-preserving sub-selection of the filtered candidates (Model/Filters.v sublistb),
     strictly increasing indices of the second-derivative array, a FIXED POINT of the round (every returned knee is alone in
     its (x_step, y_step) neighbourhood among the returned knees or is the best-ranked corner of it), reached from the filtered
     candidates by repeating the round *)
  Definition knees2_okb (dx dy : T N) (mode : outlier) (yd2 z : list (T N)) (q : T N * T N) (out : list nat) : nat :=
    let x_step := k2_step (map fst P) dx in
    let y_step := k2_step (map snd P) dy in
    if negb (sublistb out (k2_start mode yd2 z q)) then 1
    else if negb (strictly_increasing out && forallb (fun i => i <? length (k2_src mode yd2 z)) out) then 2
    else if negb (nat_list_eqb (k2_round x_step y_step out) out) then 3
    else if negb (existsb (nat_list_eqb out) (k2_orbit x_step y_step (length (k2_start mode yd2 z q) + 1) (k2_start mode yd2 z q))) then 4
    else 0.
End Knees2.
