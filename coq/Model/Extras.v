(* Model/Extras.v — the public functions that no property C01-C19 anchors (DESIGN.md 2.8 "not modelled at all"),
   modelled here so that C20's "every public function is a pure function of its argument values" is backed by
   "the implementation refines this Gallina function" for them too (correspondence: Run/JudgeC20X.v, harness/c20x.py).
     evaluation.get_neighbourhood(_points), get_neighbourhood_binary, get_neighbourhood_fast(_points),
     evaluation.accuracy_knee, accuracy_trace; knee_ranking.slope_ranking;
     linear_fit.linear_hv_residuals(_points), linear_fit_transform(_points) (vertical = False / True), angle.
   Generic over N : Num.  Everything is built from the formula layer (Model/LinearFit.v: the END-POINT fit,
   linear_r2 with NumPy's pairwise np.mean / np.sum; Model/Metrics.v: the numba left-fold residuals) and is
   bit-reproducible on FloatNum; the only oracle is `atan` (libm) in `angle`.  np.argsort inside knee_ranking.rank is
   modelled as in C17 (Model/Geometry.v): the theorems hold for EVERY sorting permutation, the executable model sorts
   stably. *)
From Coq Require Import ZArith List Bool Arith.
From Knee Require Import Num NpList Model.Metrics Model.LinearFit Model.Geometry.
Import ListNotations.
Local Open Scope num_scope.

Section Extras.
  Context {N : Num}.

  (* (neighbourhood index, r2, slope) *)
  Definition nb_res : Type := (nat * T N * T N)%type.

  (* ------------------------------------------------------------------------------------------------------------
     the three search loops, over ABSTRACT per-index functions
        r2f i = R2 of the end-point fit of points[i : a+1],   slf i = its slope
     (the theorems of Proofs/ExtrasFacts.v quantify over every r2f / slf: they hold whatever the arithmetic does) *)
  Section Loops.
    Variable r2f slf : nat -> T N.
    Variable t : T N.

    (* py: evaluation.py:174-186 get_neighbourhood, the loop and the final test
         while r2 > t and i > b:  previous_res = (i, r2, slope); i -= 1; r2, slope = R2 / slope of [i : a+1]
         if r2 > t: return i, r2, slope  else: return previous_res
       k = i - b is the number of steps still allowed by `i > b` (structural recursion on it) *)
    Fixpoint gn_loop (k i : nat) (r2 slope : T N) (prev : nb_res) : nb_res :=
      match k with
      | O => if t <?! r2 then (i, r2, slope) else prev
      | S k' =>
          if t <?! r2 then gn_loop k' (i - 1) (r2f (i - 1)) (slf (i - 1)) (i, r2, slope)
          else prev
      end.
    (* py: evaluation.py:169-172   r2 = 1.0; i = a - 1; _, slope = fit of [i : a+1]; previous_res = (i, r2, slope) *)
    Definition get_nb (a b : nat) : nb_res :=
      let i := a - 1 in
      gn_loop (i - b) i one (slf i) (i, one, slf i).

    (* py: evaluation.py:102-115 get_neighbourhood_binary
         i = b; right = a
         while abs(i-right) > 1:
           r2 = R2 of [i : a+1]
           if r2 < t: i = int((i+right)/2.0)  else: right = i; i = int((b+right)/2.0)
         return i
       explicit fuel; Proofs/ExtrasFacts.v gnb_terminates: (a-b+1)^2 + 1 suffices for every r2f *)
    Definition absdiff (i j : nat) : nat := (i - j) + (j - i).
    Fixpoint gnb_loop (fuel i rgt b : nat) : option nat :=
      match fuel with
      | O => None
      | S f =>
          if absdiff i rgt <=? 1 then Some i
          else if r2f i <?! t then gnb_loop f ((i + rgt) / 2) rgt b
          else gnb_loop f ((b + i) / 2) i b
      end.
    Definition gnb_fuel (a b : nat) : nat := (a - b + 1) * (a - b + 1) + 1.
    Definition get_nb_binary (a b : nat) : option nat := gnb_loop (gnb_fuel a b) b a b.

    (* py: evaluation.py:136-149 get_neighbourhood_fast
         i = get_neighbourhood_binary(...); r2, slope = R2 / slope of [i : a+1]; previous_res = (i, r2, slope)
         while r2 < t and i < a:  i += 1; r2, slope = ... ; previous_res = (i, r2, slope)
         return previous_res                                     k = a - i steps allowed by `i < a` *)
    Fixpoint gnf_loop (k i : nat) (r2 slope : T N) : nb_res :=
      match k with
      | O => (i, r2, slope)
      | S k' => if r2 <?! t then gnf_loop k' (i + 1) (r2f (i + 1)) (slf (i + 1)) else (i, r2, slope)
      end.
    Definition get_nb_fast (a b : nat) : option nb_res :=
      match get_nb_binary a b with
      | None => None
      | Some i => Some (gnf_loop (a - i) i (r2f i) (slf i))
      end.

    (* ---- the boolean specifications the theorems are stated with and the implementation's outputs are judged with
       (0 = holds, k = conjunct k fails).  `same` is the equality on values (bit-for-bit on floats: f_same). *)
    Variable same : T N -> T N -> bool.
    (* the R2 the linear search of get_neighbourhood attributes to index i: 1.0 by fiat for the two-point window *)
    Definition rr (a i : nat) : T N := if i =? a - 1 then one else r2f i.
    (* get_neighbourhood returns (j, r, s): j in [b, a-1]; r, s are the R2 / slope of [j : a+1]; every window between j and a
       is straighter than t; and j cannot be extended: it is b, or the next window is not straighter than t — or not even
       the two-point window passes (t >= 1) and j = a-1 *)
    Definition gn_specb (a b : nat) (o : nb_res) : nat :=
      let '(j, r, s) := o in
      if negb ((b <=? j) && (j <=? a - 1)) then 1
      else if negb (same r (rr a j) && same s (slf j)) then 2
      else if negb (forallb (fun i => t <?! rr a i) (seq (j + 1) (a - 1 - j))) then 3
      else if negb (((t <?! rr a j) && ((j =? b) || negb (t <?! rr a (j - 1))))
                    || ((j =? a - 1) && negb (t <?! rr a j))) then 4
      else 0.
    (* get_neighbourhood_fast returns (j, r, s), the binary search having returned i0: j in [i0, a]; r, s are the R2 / slope of
       [j : a+1]; every window from i0 up to j (excluded) is less straight than t; j itself is not, unless j = a *)
    Definition gnf_specb (a i0 : nat) (o : nb_res) : nat :=
      let '(j, r, s) := o in
      if negb ((i0 <=? j) && (j <=? a)) then 1
      else if negb (same r (r2f j) && same s (slf j)) then 2
      else if negb (forallb (fun i => r2f i <?! t) (seq i0 (j - i0))) then 3
      else if negb (negb (r2f j <?! t) || (j =? a)) then 4
      else 0.
    (* get_neighbourhood_binary returns an index of [b, a-1] (b when a <= b + 1) *)
    Definition gnb_specb (a b i : nat) : nat :=
      if (b <=? i) && ((i <=? a - 1) || (i =? b)) then 0 else 1.
  End Loops.

  (* ------------------------------------------------------------------------------------------------------------
     the concrete per-index functions: lf.linear_fit / lf.linear_r2 on x[i:a+1], y[i:a+1] *)
  Definition seg_fit (x y : list (T N)) (i a : nat) : coef :=
    linear_fit (slice x i (a + 1)) (slice y i (a + 1)).
  Definition seg_slope (x y : list (T N)) (a i : nat) : T N := snd (seg_fit x y i a).
  Definition seg_r2 (x y : list (T N)) (a i : nat) : T N :=
    linear_r2 (slice x i (a + 1)) (slice y i (a + 1)) (seg_fit x y i a) R2classic.

  (* py: evaluation.py:152-186 get_neighbourhood *)
  Definition get_neighbourhood (x y : list (T N)) (a b : nat) (t : T N) : nb_res :=
    get_nb (seg_r2 x y a) (seg_slope x y a) t a b.
  (* py: evaluation.py:42-60 get_neighbourhood_points *)
  Definition get_neighbourhood_points (P : list pt) (a b : nat) (t : T N) : nb_res :=
    get_neighbourhood (xs P) (ys P) a b t.
  (* py: evaluation.py:85-115 get_neighbourhood_binary *)
  Definition get_neighbourhood_binary (x y : list (T N)) (a b : nat) (t : T N) : option nat :=
    get_nb_binary (seg_r2 x y a) t a b.
  (* py: evaluation.py:118-149 get_neighbourhood_fast *)
  Definition get_neighbourhood_fast (x y : list (T N)) (a b : nat) (t : T N) : option nb_res :=
    get_nb_fast (seg_r2 x y a) (seg_slope x y a) t a b.
  (* py: evaluation.py:63-82 get_neighbourhood_fast_points *)
  Definition get_neighbourhood_fast_points (P : list pt) (a b : nat) (t : T N) : option nb_res :=
    get_neighbourhood_fast (xs P) (ys P) a b t.

  (* ------------------------------------------------------------------------------------------------------------
     accuracy_knee / accuracy_trace: per-knee rows (|dx|, |dy|, |slope|, r2), then the same normalise-and-average *)
  Definition acc_row : Type := (T N * T N * T N * T N)%type.
  Definition acc_res : Type := (T N * T N * T N * T N * T N)%type.
  Definition r_dx (r : acc_row) : T N := fst (fst (fst r)).
  Definition r_dy (r : acc_row) : T N := snd (fst (fst r)).
  Definition r_sl (r : acc_row) : T N := snd (fst r).
  Definition r_r2 (r : acc_row) : T N := snd r.
  Definition at_ (l : list (T N)) (i : nat) : T N := nth i l zero.
  (* the default R2 threshold 0.9 (the quotient of two exactly representable integers is the correctly rounded literal) *)
  Definition t09 : T N := ofZ 9 /! ofZ 10.

  (* py: evaluation.py:214-226 accuracy_knee, the loop
       previous_knee = 0
       for i: idx, r2, slope = get_neighbourhood_fast(x, y, knees[i], previous_knee)      [t is NOT passed on: always 0.9]
              append fabs(x[idx]-x[knees[i]]), fabs(y[idx]-y[knees[i]]), fabs(slope), r2;  previous_knee = knees[i]  *)
  Fixpoint ak_rows (x y : list (T N)) (prev : nat) (knees : list nat) : option (list acc_row) :=
    match knees with
    | [] => Some []
    | k :: ks =>
        match get_neighbourhood_fast x y k prev t09 with
        | None => None
        | Some (idx, r2, slope) =>
            match ak_rows x y k ks with
            | None => None
            | Some rest => Some ((abs (at_ x idx -! at_ x k), abs (at_ y idx -! at_ y k), abs slope, r2) :: rest)
            end
        end
    end.

  (* py: evaluation.py:274-307 accuracy_trace, the first segment [0 : knees[0]+1] and the loop over [knees[i-1] : knees[i]+1]
       append fabs(x[prev]-x[knee]), fabs(y[prev]-y[knee]), fabs(slope of the end-point fit), its linear_r2 *)
  Fixpoint at_rows (x y : list (T N)) (prev : nat) (knees : list nat) : list acc_row :=
    match knees with
    | [] => []
    | k :: ks =>
        (abs (at_ x prev -! at_ x k), abs (at_ y prev -! at_ y k), abs (seg_slope x y k prev), seg_r2 x y k prev)
          :: at_rows x y k ks
    end.

  (* py: evaluation.py:228-247 (clip = false) and 309-328 (clip = true)
       slopes = slopes/slopes.max(); coeffients = coeffients/coeffients.max()
       distances_x = distances_x/total_x; distances_y = distances_y/total_y
       [accuracy_trace only: coeffients[coeffients < 0] = 0.0]
       p = slopes * distances_y [* coeffients]
       np.average = ndarray.mean (NumPy's pairwise sum / n)
       return average_x, average_y, average_slope, average_coeffients, average_x / np.average(p)             *)
  Definition acc_finish (clip : bool) (total_x total_y : T N) (rows : list acc_row) : acc_res :=
    let sl0 := map r_sl rows in
    let smax := np_max sl0 in
    let sl := map (fun s => s /! smax) sl0 in
    let co0 := map r_r2 rows in
    let cmax := np_max co0 in
    let co1 := map (fun c => c /! cmax) co0 in
    let co := if clip then map (fun c => if c <?! zero then zero else c) co1 else co1 in
    let dx := map (fun r => r_dx r /! total_x) rows in
    let dy := map (fun r => r_dy r /! total_y) rows in
    let p0 := zip_with (fun s d => s *! d) sl dy in
    let p := if clip then zip_with (fun q c => q *! c) p0 co else p0 in
    let ax := np_mean dx in
    (ax, np_mean dy, np_mean sl, np_mean co, ax /! np_mean p).

  Definition total_of (v : list (T N)) : T N := abs (last v zero -! hd zero v).   (* math.fabs(v[-1] - v[0]) *)

  (* py: evaluation.py:189-247 accuracy_knee.  None = an exception (empty knee set: slopes.max() of an empty array) *)
  Definition accuracy_knee (P : list pt) (knees : list nat) : option acc_res :=
    match knees with
    | [] => None
    | _ =>
        match ak_rows (xs P) (ys P) 0 knees with
        | None => None
        | Some rows => Some (acc_finish false (total_of (xs P)) (total_of (ys P)) rows)
        end
    end.
  (* py: evaluation.py:250-328 accuracy_trace.  None = an exception (empty knee set: knees[0]) *)
  Definition accuracy_trace (P : list pt) (knees : list nat) : option acc_res :=
    match knees with
    | [] => None
    | _ => Some (acc_finish true (total_of (xs P)) (total_of (ys P)) (at_rows (xs P) (ys P) 0 knees))
    end.

  (* ------------------------------------------------------------------------------------------------------------
     knee_ranking.slope_ranking *)
  (* py: knee_ranking.py:154-159   fabs(slope of get_neighbourhood(x, y, knees[i], knees[i-1] (0 for the first), t)) *)
  Fixpoint sr_keys (x y : list (T N)) (t : T N) (prev : nat) (knees : list nat) : list (T N) :=
    match knees with
    | [] => []
    | k :: ks => abs (snd (get_neighbourhood x y k prev t)) :: sr_keys x y t k ks
    end.
  Definition nat_max (l : list nat) : nat := fold_right Nat.max 0 l.
  Definition nat_min (l : list nat) : nat := fold_right Nat.min (hd 0 l) l.
  (* py: knee_ranking.py:165   (rankings - np.min(rankings))/np.ptp(rankings)   (int64 arrays, true division) *)
  Definition minmax_norm (r : list nat) : list (T N) :=
    let lo := nat_min r in
    let hi := nat_max r in
    map (fun v => ofN (v - lo) /! ofN (hi - lo)) r.
  (* the ranking that the sorting permutation `temp` (what array.argsort() returned) determines *)
  Definition slope_ranking_of (temp : list nat) : list (T N) := minmax_norm (rank_of_perm temp).
  (* py: knee_ranking.py:130-169 slope_ranking.  None = an exception (empty knee set: knees[0]) *)
  Definition slope_ranking (P : list pt) (knees : list nat) (t : T N) : option (list (T N)) :=
    match knees with
    | [] => None
    | [_] => Some [one]
    | _ => Some (slope_ranking_of (argsort_stable (sr_keys (xs P) (ys P) t 0 knees)))
    end.

  (* ------------------------------------------------------------------------------------------------------------
     linear_fit: horizontal / vertical end-point fits *)
  (* py: linear_fit.py:143-148   the two residuals: y on x, x on y *)
  Definition hv_yres (x y : list (T N)) : T N := linear_residuals x y (linear_fit x y).
  Definition hv_xres (x y : list (T N)) : T N := linear_residuals y x (linear_fit y x).
  (* py: linear_fit.py:127-153 linear_hv_residuals   `y_residuals if y_residuals <= x_residuals else x_residuals` *)
  Definition linear_hv_residuals (x y : list (T N)) : T N :=
    if hv_yres x y <=?! hv_xres x y then hv_yres x y else hv_xres x y.
  (* py: linear_fit.py:107-123 linear_hv_residuals_points *)
  Definition linear_hv_residuals_points (P : list pt) : T N := linear_hv_residuals (xs P) (ys P).

  (* py: linear_fit.py:177-194 linear_fit_transform
       vertical = False: y_hat;  vertical = True: (y, y_hat) if y_residuals <= x_residuals else (x, x_hat)
     modelled as (None, y_hat) / (Some axis, fitted values) *)
  Definition linear_fit_transform (x y : list (T N)) (vertical : bool) : option (list (T N)) * list (T N) :=
    let y_hat := linear_transform x (linear_fit x y) in
    if vertical then
      if hv_yres x y <=?! hv_xres x y then (Some y, y_hat)
      else (Some x, linear_transform y (linear_fit y x))
    else (None, y_hat).
  (* py: linear_fit.py:156-173 linear_fit_transform_points *)
  Definition linear_fit_transform_points (P : list pt) (vertical : bool) := linear_fit_transform (xs P) (ys P) vertical.

  (* py: linear_fit.py:490-503 angle   math.atan((m1-m2)/(1.0+m1*m2))
     `atan` is libm: an oracle.  With Python floats a zero denominator raises ZeroDivisionError (None); with
     np.float64 slopes (what linear_fit returns for arrays) the quotient is inf / nan and atan is applied to it. *)
  Definition angle (atan : T N -> T N) (pyfloat : bool) (c1 c2 : coef) : option (T N) :=
    let m1 := snd c1 in
    let m2 := snd c2 in
    let den := one +! m1 *! m2 in
    if pyfloat && (den =?! zero) then None else Some (atan ((m1 -! m2) /! den)).

  (* ------------------------------------------------------------------------------------------------------------
     boolean predicates the theorems of Proofs/ExtrasFacts.v are stated with and the implementation's outputs are judged with
     (`same` = equality on values; f_same on floats) *)
  Section Preds.
    Variable same : T N -> T N -> bool.
    (* slope_ranking: `ranks` (recovered from the output by the judge) is a permutation of 0..m-1 that orders the keys
       (C17's rank_okb), and the output is ranks / (m-1), value for value *)
    Definition sr_okb (keys : list (T N)) (ranks : list nat) (out : list (T N)) : bool :=
      rank_okb keys ranks
      && (length out =? length ranks)
      && forallb (fun p => same (fst p) (ofN (snd p) /! ofN (length ranks - 1))) (combine out ranks).
    (* linear_hv_residuals: the value is one of the two residuals and is not above either *)
    Definition hv_okb (x y : list (T N)) (v : T N) : bool :=
      (same v (hv_yres x y) || same v (hv_xres x y)) && (v <=?! hv_yres x y) && (v <=?! hv_xres x y).
  End Preds.
End Extras.
