(* Model/GlobalCost.v — evaluation.compute_global_cost / compute_cost / compute_global_rmse / mip (C15).

   Control layer: the segment loop threading the caller's cache dict (an association list keyed (left, right)
   in insertion order — Python dicts keep insertion order — plus the optional 'tss' entry), over the oracles
     segerr l r = evaluation.compute_partial_cost(y, lf.linear_fit_transform_points(pt), cost), pt = points[l:r+1]
     tss        = np.sum(np.square(y - np.mean(y)))                      (the R2 denominator, evaluation.py:701-703)
     sqerr l r  = np.sum(np.square(y - y_hat)) of the end-point fit of points[l:r+1]   (compute_global_rmse)
   Formula layer (second half): the end-point fit, the five partial costs, tss and sqerr as closed formulas,
   generic over Num; they instantiate the oracles in the closed corollaries and are only ever compared with
   the oracle tables under tolerance. *)
From Coq Require Import ZArith List Bool Arith.
From Knee Require Import Num NpList.
Import ListNotations.
Local Open Scope num_scope.

(* py: metrics.py Metrics enum (the five members compute_cost / compute_partial_cost dispatch on) *)
Inductive metric := MR2 | MRmsle | MRmspe | MRpd | MSmape.

Definition key := (nat * nat)%type.
Definition key_eqb (a b : key) : bool := (fst a =? fst b) && (snd a =? snd b).

(* ---------------------------------------------------------------------------------------------- *)
(* the cache and the segment loop, generic in the value type and in what a miss computes *)
Section Cache.
  Context {V : Type}.
  (* the (left, right) -> value part of the dict, in insertion order *)
  Definition segcache := list (key * V).
  Fixpoint lookup (k : key) (c : segcache) : option V :=
    match c with
    | [] => None
    | (k', v) :: c' => if key_eqb k k' then Some v else lookup k c'
    end.

  Variable f : nat -> nat -> V.        (* the value a miss computes and stores *)

  (* py: evaluation.py:778-788 (and 626-634)  `if (left, right) not in cache: cache[(left, right)] = ...`;
     `segment_errors[i-1] = cache[(left, right)]` *)
  Definition query_seg (c : segcache) (l r : nat) : V * segcache :=
    match lookup (l, r) c with
    | Some v => (v, c)
    | None => let v := f l r in (v, c ++ [((l, r), v)])
    end.
  (* py: evaluation.py:773-789 (and 621-635)  left = reduced[0]; for i in range(1, len(reduced)): right = reduced[i] ... left = right *)
  Fixpoint seg_errors_go (c : segcache) (lft : nat) (rest : list nat) : list V * segcache :=
    match rest with
    | [] => ([], c)
    | rgt :: rest' =>
        let '(v, c1) := query_seg c lft rgt in
        let '(vs, c2) := seg_errors_go c1 rgt rest' in
        (v :: vs, c2)
    end.
  Definition seg_errors (c : segcache) (red : list nat) : list V * segcache :=
    match red with
    | [] => ([], c)
    | lft :: rest => seg_errors_go c lft rest
    end.

  (* the segments of a breakpoint list and their freshly computed values (no cache) *)
  Fixpoint seg_pairs (lft : nat) (rest : list nat) : list key :=
    match rest with
    | [] => []
    | rgt :: rest' => (lft, rgt) :: seg_pairs rgt rest'
    end.
  Definition segments (red : list nat) : list key :=
    match red with [] => [] | lft :: rest => seg_pairs lft rest end.
  Definition seg_values (red : list nat) : list V := map (fun k => f (fst k) (snd k)) (segments red).
End Cache.

(* np.delete(reduced, i) *)
Definition delete_at {A} (i : nat) (l : list A) : list A := firstn i l ++ skipn (S i) l.

(* ---------------------------------------------------------------------------------------------- *)
Section GlobalCost.
  Context {N : Num}.
  Variable n : nat.                       (* len(points) *)
  Variable segerr : nat -> nat -> T N.    (* oracle: partial cost of the end-point fit of points[l:r+1] *)
  Variable tss : T N.                     (* oracle: total sum of squares of y *)

  (* the whole dict: (left,right) entries and the optional 'tss' entry *)
  Definition cache := (@segcache (T N) * option (T N))%type.
  Definition empty_cache : cache := ([], None).

  (* py: evaluation.py:779-786  pt = points[left:right+1]; `if len(pt) <= 2: cache[...] = 0 else ... compute_partial_cost`
     (len of a NumPy slice: clipped to the array) *)
  Definition seg_len (l r : nat) : nat := Nat.min (r + 1) n - Nat.min l n.
  Definition seg_fresh (l r : nat) : T N := if seg_len l r <=? 2 then zero else segerr l r.

  (* py: evaluation.py:722  cost = 0 if cost < 0 else cost *)
  Definition clip (c : T N) : T N := if c <?! zero then zero else c.

  (* py: evaluation.py:695-720  the per-metric normalisation of the accumulated error `s`;
     `total` = len(points) + len(segment_errors) - 1;  `t` = the total sum of squares *)
  Definition finish_raw (m : metric) (s : T N) (total : Z) (t : T N) : T N :=
    match m with
    | MR2 => if t =?! zero then one -! s else one -! (s /! t)
    | MRmsle | MRmspe => sqrt (s /! ofZ total)
    | MRpd | MSmape => s /! ofZ total
    end.
  Definition finish (m : metric) (s : T N) (total : Z) (t : T N) : T N := clip (finish_raw m s total t).
  Definition total_of (nsegs : nat) : Z := (Z.of_nat n + Z.of_nat nsegs - 1)%Z.

  (* py: evaluation.py:675-724 compute_cost; returns the value and the 'tss' entry afterwards *)
  Definition compute_cost (m : metric) (errs : list (T N)) (tc : option (T N)) : T N * option (T N) :=
    let s := np_sum errs in
    let total := total_of (length errs) in
    match m with
    | MR2 =>
        let t := match tc with Some t => t | None => tss end in       (* 699-705 *)
        (finish m s total t, Some t)
    | _ => (finish m s total zero, tc)
    end.

  (* py: evaluation.py:752-791 compute_global_cost(points, reduced, cost, cache) -> (value, cache afterwards) *)
  Definition gcost (m : metric) (c : cache) (red : list nat) : T N * cache :=
    let '(errs, sc) := seg_errors seg_fresh (fst c) red in
    let '(v, tc) := compute_cost m errs (snd c) in
    (v, (sc, tc)).
  (* cache=None *)
  Definition gcost_fresh (m : metric) (red : list nat) : T N := fst (gcost m empty_cache red).

  (* a history of queries against one shared dict: the values, the dict after every query, the final dict *)
  Fixpoint run_shared (m : metric) (c : cache) (qs : list (list nat)) : list (T N * cache) :=
    match qs with
    | [] => []
    | q :: qs' => let '(v, c') := gcost m c q in (v, c') :: run_shared m c' qs'
    end.

  (* the definition the value is claimed to equal: the metric's normalisation of the accumulated segment errors *)
  Definition gcost_spec (m : metric) (red : list nat) : T N :=
    finish m (np_sum (seg_values seg_fresh red)) (total_of (length red - 1)) tss.
End GlobalCost.

(* ---------------------------------------------------------------------------------------------- *)
Section GlobalRmse.
  Context {N : Num}.
  Variable n : nat.
  Variable sqerr : nat -> nat -> T N.     (* oracle: residual sum of squares of the end-point fit of points[l:r+1] *)

  (* py: evaluation.py:601-638 compute_global_rmse(points, reduced, cache) *)
  Definition grmse (c : @segcache (T N)) (red : list nat) : T N * segcache :=
    let '(errs, c') := seg_errors sqerr c red in
    (sqrt (np_sum errs /! ofN n), c').
  Definition grmse_fresh (red : list nat) : T N := fst (grmse [] red).
  Fixpoint rmse_shared (c : @segcache (T N)) (qs : list (list nat)) : list (T N * segcache) :=
    match qs with
    | [] => []
    | q :: qs' => let '(v, c') := grmse c q in (v, c') :: rmse_shared c' qs'
    end.

  (* np.median of a 1-D float array: NaN if any NaN; middle element of the sorted array, or the mean
     (np.mean of the two middle elements) when the length is even.  Empty: NaN in NumPy — the model returns zero /! zero. *)
  Definition median (l : list (T N)) : T N :=
    match find isnan l with
    | Some x => x
    | None =>
        let s := sort_by leb l in
        let k := length l in
        match k with
        | O => zero /! zero
        | _ => if Nat.even k then np_mean [nth (k / 2 - 1) s zero; nth (k / 2) s zero] else nth (k / 2) s zero
        end
    end.

  (* py: evaluation.py:641-672 mip: one dict shared by the final RMSE and every reference RMSE *)
  Fixpoint mip_loop (fin : T N) (red : list nat) (c : @segcache (T N)) (is : list nat) : list (T N) :=
    match is with
    | [] => []
    | i :: is' =>
        let '(ref, c') := grmse c (delete_at i red) in
        (ref -! fin) :: mip_loop fin red c' is'
    end.
  Definition mip_ip (red : list nat) : list (T N) :=
    let '(fin, c0) := grmse [] red in
    mip_loop fin red c0 (seq 1 (length red - 2)).
  Definition mad_of (ip : list (T N)) : T N * T N :=
    let md := median ip in (md, median (map (fun v => abs (v -! md)) ip)).
  Definition mip (red : list nat) : T N * T N := mad_of (mip_ip red).

  (* the definition: every RMSE evaluated with a fresh cache *)
  Definition mip_spec (red : list nat) : T N * T N :=
    let fin := grmse_fresh red in
    mad_of (map (fun i => grmse_fresh (delete_at i red) -! fin) (seq 1 (length red - 2))).
End GlobalRmse.

(* ---------------------------------------------------------------------------------------------- *)
(* formula layer *)
Section Formula.
  Context {N : Num}.
  Definition pt := (T N * T N)%type.
  (* eps = 1e-16: 10^16 is a double, so the correctly rounded quotient is the literal's value *)
  Definition eps16 : T N := one /! ofZ 10000000000000000.

  (* py: linear_fit.py:51-72 linear_fit(x, y) -> (b, m) from the first and the last point *)
  Definition endpoint_fit (seg : list pt) : T N * T N :=
    match seg with
    | [] => (zero, zero)
    | p0 :: _ =>
        let pl := last seg p0 in
        let d := fst p0 -! fst pl in
        if d =?! zero then (zero, zero)                                   (* `if d != 0` *)
        else let m := (snd p0 -! snd pl) /! (fst p0 -! fst pl) in
             (snd p0 -! (m *! fst p0), m)
    end.
  (* py: linear_fit.py:91-104 linear_transform: y_hat = x * m + b *)
  Definition line_at (coef : T N * T N) (x : T N) : T N := x *! snd coef +! fst coef.
  (* py: linear_fit.py:177-194 linear_fit_transform(x, y) (vertical=False) *)
  Definition fit_transform (seg : list pt) : list (T N) := map (fun p => line_at (endpoint_fit seg) (fst p)) seg.

  (* points[l:r+1] *)
  Definition segment_of (pts : list pt) (l r : nat) : list pt := slice pts l (r + 1).

  (* py: evaluation.py:627-631  np.sum(np.square(y - y_hat)) *)
  Definition sqerr_formula (pts : list pt) (l r : nat) : T N :=
    let seg := segment_of pts l r in
    let coef := endpoint_fit seg in
    np_sum (map (fun p => sq (snd p -! line_at coef (fst p))) seg).

  (* py: evaluation.py:727-749 compute_partial_cost: the summand of each metric *)
  Definition partial_term (m : metric) (y yh : T N) : T N :=
    match m with
    | MR2 => sq (y -! yh)
    | MRmsle => sq (ln (y +! one) -! ln (yh +! one))
    | MRmspe => sq ((y -! yh) /! (y +! eps16))
    | MRpd => abs ((y -! yh) /! (npmax y yh +! eps16))
    | MSmape => (two *! abs (yh -! y)) /! (abs y +! abs yh +! eps16)
    end.
  Definition segerr_formula (m : metric) (pts : list pt) (l r : nat) : T N :=
    let seg := segment_of pts l r in
    let coef := endpoint_fit seg in
    np_sum (map (fun p => partial_term m (snd p) (line_at coef (fst p))) seg).

  (* py: evaluation.py:701-703  y_mean = np.mean(y); tss = np.sum(np.square(y - y_mean)) *)
  Definition tss_formula (pts : list pt) : T N :=
    let ys := map snd pts in
    let ym := np_mean ys in
    np_sum (map (fun y => sq (y -! ym)) ys).

  (* the piecewise-linear interpolation through the breakpoints, evaluated at point i: the line of the first
     segment (l, r) with i <= r (a breakpoint belongs to both adjoining segments; both lines pass through it) *)
  Definition px (pts : list pt) (i : nat) : T N := fst (nth i pts (zero, zero)).
  Definition py (pts : list pt) (i : nat) : T N := snd (nth i pts (zero, zero)).
  Fixpoint interp_go (pts : list pt) (lft : nat) (rest : list nat) (i : nat) : T N :=
    match rest with
    | [] => py pts i
    | rgt :: rest' =>
        if i <=? rgt then line_at (endpoint_fit (segment_of pts lft rgt)) (px pts i)
        else interp_go pts rgt rest' i
    end.
  Definition interp (pts : list pt) (red : list nat) (i : nat) : T N :=
    match red with [] => py pts i | lft :: rest => interp_go pts lft rest i end.
  (* RMSE of the curve against its interpolation: every point counted once *)
  Definition rmse_interp (pts : list pt) (red : list nat) : T N :=
    sqrt (np_sum (map (fun i => sq (py pts i -! interp pts red i)) (seq 0 (length pts))) /! ofN (length pts)).

  (* closed models: the oracles instantiated with the formulas *)
  Definition gcost_closed (m : metric) (pts : list pt) (red : list nat) : T N :=
    gcost_fresh (length pts) (segerr_formula m pts) (tss_formula pts) m red.
  Definition grmse_closed (pts : list pt) (red : list nat) : T N :=
    grmse_fresh (length pts) (sqerr_formula pts) red.
End Formula.
