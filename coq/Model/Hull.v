(* Model/Hull.v — convex_hull.py: _ccw, graham_scan_lower, graham_scan_upper, _sort_points, graham_scan.
   Executable definitions only.  The three scans are one generic stack scan over POSITIONS 0..n-1
   (positions of the x-sorted curve for lower/upper; positions in the angularly sorted list for graham_scan). *)
From Coq Require Import List Arith Bool.
From Knee Require Import Num NpList.
Import ListNotations.
Local Open Scope num_scope.

(* ------------------------------------------------------------------------------------------ *)
(* the generic scan.  `test a b i = true`  <->  the code pops the top b (with a below it) when i arrives *)
Section Scan.
  Variable test : nat -> nat -> nat -> bool.
  (* py: convex_hull.py:102-103 / 128-129 / 154-155   `while len(stack) > 1 and <test>: stack.pop()`
     st is the stack, top first; the bottom element is never popped (the len(stack) > 1 guard) *)
  Fixpoint pop_while (i : nat) (st : list nat) : list nat :=
    match st with
    | b :: ((a :: _) as st') => if test a b i then pop_while i st' else st
    | _ => st
    end.
  (* py: one iteration of the for loop: the while loop, then stack.append(i) *)
  Definition scan_step (st : list nat) (i : nat) : list nat := i :: pop_while i st.
  (* the stack (top first) after the for loop over range(k, n), started from [0, ..., k-1] *)
  Definition scan_stack (k n : nat) : list nat := fold_left scan_step (seq k (n - k)) (rev (seq 0 k)).
  Definition scan (k n : nat) : list nat := rev (scan_stack k n).
End Scan.

(* adjacent-window boolean predicates on index chains (bottom first = the order the code returns) *)
Fixpoint tripb (p : nat -> nat -> nat -> bool) (l : list nat) : bool :=
  match l with
  | a :: ((b :: c :: _) as t) => p a b c && tripb p t
  | _ => true
  end.
Fixpoint pairb (p : nat -> nat -> bool) (l : list nat) : bool :=
  match l with
  | a :: ((b :: _) as t) => p a b && pairb p t
  | _ => true
  end.
(* strictly increasing chain from 0 to n-1 with at least two entries *)
Definition chainb (n : nat) (out : list nat) : bool :=
  strictly_increasing out && (hd 1 out =? 0) && (last out 0 =? n - 1) && (2 <=? length out).

Section Hull.
  Context {N : Num}.
  Definition pt : Type := (T N * T N)%type.
  Definition pt0 : pt := (zero, zero).

  (* py: convex_hull.py:23-35 _ccw  — bit-reproducible: four subtractions, two products, one subtraction *)
  Definition ccw (a b c : pt) : T N :=
    (fst b -! fst a) *! (snd c -! snd a) -! (fst c -! fst a) *! (snd b -! snd a).
  Definition ccw_idx (pts : list pt) (a b c : nat) : T N :=
    ccw (nth a pts pt0) (nth b pts pt0) (nth c pts pt0).

  (* py: convex_hull.py:112-135 graham_scan_lower, over an orientation oracle on indices.
     `_ccw(points[stack[-2]], points[stack[-1]], points[i]) <= 0` *)
  Definition lower_test (cc : nat -> nat -> nat -> T N) (a b i : nat) : bool := cc a b i <=?! zero.
  Definition lower_with (cc : nat -> nat -> nat -> T N) (n : nat) : list nat := scan (lower_test cc) 2 n.
  (* py: convex_hull.py:138-161 graham_scan_upper.  `_ccw(points[i], points[stack[-1]], points[stack[-2]]) <= 0` *)
  Definition upper_test (cc : nat -> nat -> nat -> T N) (a b i : nat) : bool := cc i b a <=?! zero.
  Definition upper_with (cc : nat -> nat -> nat -> T N) (n : nat) : list nat := scan (upper_test cc) 2 n.
  (* closed models: the orientation computed by the formula of _ccw *)
  Definition graham_scan_lower (pts : list pt) : list nat := lower_with (ccw_idx pts) (length pts).
  Definition graham_scan_upper (pts : list pt) : list nat := upper_with (ccw_idx pts) (length pts).

  (* ---------------------------------------------------------------------------------------- *)
  (* graham_scan *)

  (* Python tuple comparison (x1, y1) < (x2, y2): first component that is != decides *)
  Definition lex_lt (p q : pt) : bool :=
    if negb (fst p =?! fst q) then fst p <?! fst q
    else if negb (snd p =?! snd q) then snd p <?! snd q else false.
  (* py: convex_hull.py:68  min(points, key=lambda p: (p[0], p[1])): the first minimal row *)
  Fixpoint pivot_go (pts : list pt) (i : nat) (best : pt) (bi : nat) : nat :=
    match pts with
    | [] => bi
    | p :: pts' => if lex_lt p best then pivot_go pts' (S i) p i else pivot_go pts' (S i) best bi
    end.
  Definition pivot_min (pts : list pt) : nat :=
    match pts with [] => 0 | p :: pts' => pivot_go pts' 1 p 0 end.
  (* py: np.where(np.all(points == p, axis=1))[0][0]: index of the first row equal to p; None = IndexError *)
  Definition pt_eqb (q p : pt) : bool := (fst q =?! fst p) && (snd q =?! snd p).
  Fixpoint find_row (p : pt) (l : list pt) (j : nat) : option nat :=
    match l with
    | [] => None
    | q :: l' => if pt_eqb q p then Some j else find_row p l' (S j)
    end.
  Definition first_eq (pts : list pt) (i : nat) : option nat := find_row (nth i pts pt0) pts 0.

  (* py: convex_hull.py:45-50 _compare_points(p0, pi, pj) < 0 — what functools.cmp_to_key's __lt__ asks.
     dist i = _dist_points(p0, points[i]) is an oracle (np.linalg.norm) *)
  Definition cmp_lt (cc : nat -> nat -> nat -> T N) (dist : nat -> T N) (p0 i j : nat) : bool :=
    let o := cc p0 i j in
    if o =?! zero then dist i <=?! dist j else negb (zero <?! o).
  (* py: convex_hull.py:72-77  [p0] + sorted(points[mask], key=cmp_to_key(...)): indices instead of rows;
     Python's sorted is stable: modelled by stable insertion (an element is placed after every earlier one it is
     not smaller than).  The theorems hold for EVERY arrangement of the indices (graham_with). *)
  Definition sorted_points (cc : nat -> nat -> nat -> T N) (dist : nat -> T N) (n p0 : nat) : list nat :=
    p0 :: @sort_by nat (fun y x => negb (cmp_lt cc dist p0 x y)) (filter (fun i => negb (i =? p0)) (seq 0 n)).

  (* py: convex_hull.py:91-104: the stack scan over the positions of sorted_points.
     `_ccw(stack[-2], stack[-1], p) >= 0` ; fewer than 3 points: the stack stays empty *)
  Definition graham_test (cc : nat -> nat -> nat -> T N) (sp : list nat) (a b i : nat) : bool :=
    zero <=?! cc (nth a sp 0) (nth b sp 0) (nth i sp 0).
  Definition graham_positions (cc : nat -> nat -> nat -> T N) (sp : list nat) : list nat :=
    if length sp <? 3 then [] else scan (graham_test cc sp) 3 (length sp).
  (* the hull as indices into points, for any arrangement sp of the indices *)
  Definition graham_with (cc : nat -> nat -> nat -> T N) (sp : list nat) : list nat :=
    map (fun p => nth p sp 0) (graham_positions cc sp).

  (* py: convex_hull.py:108  each stacked row is converted back with np.where(...)[0][0] *)
  Fixpoint map_opt {A B} (f : A -> option B) (l : list A) : option (list B) :=
    match l with
    | [] => Some []
    | a :: l' => match f a, map_opt f l' with Some b, Some r => Some (b :: r) | _, _ => None end
    end.
  (* py: convex_hull.py:80-109 graham_scan.  None = an exception (empty input, NaN rows) *)
  Definition graham_sorted (pts : list pt) (dist : nat -> T N) : option (list nat) :=
    match pts with
    | [] => None                                             (* min() of an empty sequence: ValueError *)
    | _ => match first_eq pts (pivot_min pts) with
           | None => None
           | Some p0 => Some (sorted_points (ccw_idx pts) dist (length pts) p0)
           end
    end.
  Definition graham_scan (pts : list pt) (dist : nat -> T N) : option (list nat) :=
    match graham_sorted pts dist with
    | None => None
    | Some sp => map_opt (first_eq pts) (graham_with (ccw_idx pts) sp)
    end.

  (* ---------------------------------------------------------------------------------------- *)
  (* the predicates the theorems are stated with (and the judge evaluates on the implementation's output) *)

  (* every consecutive triple fails the code's pop test (Tier S reading of "strict turn") *)
  Definition turnsb (test : nat -> nat -> nat -> bool) (out : list nat) : bool :=
    tripb (fun a b c => negb (test a b c)) out.

  (* geometric predicates, parametrised by the two sign tests (lower: 0 < x, 0 <= x; upper: x < 0, x <= 0) *)
  Definition pos (x : T N) : bool := zero <?! x.
  Definition nonneg (x : T N) : bool := zero <=?! x.
  Definition negt (x : T N) : bool := x <?! zero.
  Definition nonpos (x : T N) : bool := x <=?! zero.
  Section Geom.
    Variable strict weak : T N -> bool.
    Variable pts : list pt.
    (* every point between two consecutive chain vertices a < b is on the weak side of the edge a -> b *)
    Definition coversb (out : list nat) : bool :=
      pairb (fun a b => forallb (fun k => weak (ccw_idx pts a b k)) (seq a (S b - a))) out.
    (* consecutive edges turn strictly *)
    Definition convexb (out : list nat) : bool := tripb (fun a b c => strict (ccw_idx pts a b c)) out.
    (* brute force: k is a vertex iff it is strictly on the outer side of every segment a -> b with a < k < b *)
    Definition vertexb (n k : nat) : bool :=
      forallb (fun a => forallb (fun b => strict (ccw_idx pts a k b)) (seq (S k) (n - S k))) (seq 0 k).
    Definition brute_chain (n : nat) : list nat := filter (vertexb n) (seq 0 n).
    Definition hull_geomb (out : list nat) : bool :=
      let n := length pts in
      chainb n out && coversb out && convexb out && nat_list_eqb out (brute_chain n).
  End Geom.
  Definition lower_geomb := hull_geomb pos nonneg.
  Definition upper_geomb := hull_geomb negt nonpos.

  (* strictly increasing x (the x-sorted curve of the property) *)
  Fixpoint x_increasing (pts : list pt) : bool :=
    match pts with
    | p :: ((q :: _) as t) => (fst p <?! fst q) && x_increasing t
    | _ => true
    end.

  (* planar point sets: pairwise distinct rows *)
  Definition distinctb (pts : list pt) : bool :=
    forallb (fun i => match first_eq pts i with Some j => j =? i | None => false end) (seq 0 (length pts)).
  (* no three points collinear (orientation of every index triple i < j < k is not 0) *)
  Definition general_positionb (pts : list pt) : bool :=
    let n := length pts in
    forallb (fun i => forallb (fun j => forallb (fun k => negb (ccw_idx pts i j k =?! zero))
                                              (seq (S j) (n - S j))) (seq (S i) (n - S i))) (seq 0 n).
  (* brute-force planar hull: k is a boundary point iff some line through k and another point has every
     point on one closed side; an extreme vertex iff it is moreover not strictly between two other input points
     collinear with it *)
  Definition boundaryb (pts : list pt) (k : nat) : bool :=
    let n := length pts in
    existsb (fun j => negb (j =? k) &&
                      (forallb (fun i => nonneg (ccw_idx pts k j i)) (seq 0 n)
                       || forallb (fun i => nonpos (ccw_idx pts k j i)) (seq 0 n))) (seq 0 n).
  Definition dotk (pts : list pt) (k a b : nat) : T N :=   (* (a - k) . (b - k) *)
    let pk := nth k pts pt0 in let pa := nth a pts pt0 in let pb := nth b pts pt0 in
    (fst pa -! fst pk) *! (fst pb -! fst pk) +! (snd pa -! snd pk) *! (snd pb -! snd pk).
  Definition betweenb (pts : list pt) (k : nat) : bool :=
    let n := length pts in
    existsb (fun a => existsb (fun b => negb (a =? k) && negb (b =? k) &&
                                        (ccw_idx pts a k b =?! zero) && negt (dotk pts k a b)) (seq 0 n)) (seq 0 n).
  Definition extremeb (pts : list pt) (k : nat) : bool := boundaryb pts k && negb (betweenb pts k).
  Definition memb (x : nat) (l : list nat) : bool := existsb (Nat.eqb x) l.
  Fixpoint nodupb (l : list nat) : bool :=
    match l with [] => true | a :: t => negb (memb a t) && nodupb t end.
  (* degenerate clause of the property, as a per-case test: every extreme vertex is returned, and only
     boundary points are *)
  Definition graham_degenb (pts : list pt) (out : list nat) : bool :=
    forallb (fun k => negb (extremeb pts k) || memb k out) (seq 0 (length pts))
    && forallb (boundaryb pts) out.
  (* general position clause: exactly the extreme vertices, starting at the pivot, turning clockwise *)
  Definition graham_gpb (pts : list pt) (out : list nat) : bool :=
    let n := length pts in
    nat_list_eqb (sort_nat out) (filter (extremeb pts) (seq 0 n))
    && (hd n out =? pivot_min pts)
    && tripb (fun a b c => negt (ccw_idx pts a b c)) (out ++ firstn 2 out).
  (* structural clause: indices in range, no duplicates, starts at the pivot *)
  Definition graham_structb (pts : list pt) (out : list nat) : bool :=
    let n := length pts in
    forallb (fun i => i <? n) out && nodupb out && (hd n out =? pivot_min pts) && (2 <=? length out).
End Hull.
