#!/bin/bash
# usage: goal.sh File.v LINE  — print the proof state after line LINE of File.v (debug helper)
f=$1; n=$2
tmp=$(mktemp -d /tmp/goalXXXX)
head -n $n $f > $tmp/G.v
echo "Show." >> $tmp/G.v
(cd /verif/coq && timeout 120 coqc -Q . Knee -w none -o $tmp/G.vo $tmp/G.v 2>&1 | head -${3:-60})
rm -rf $tmp
