(* NumFloat.v — the binary64 instance (PrimFloat, evaluated natively by vm_compute). *)
From Coq Require Import ZArith List Bool PrimFloat Uint63 FloatOps SpecFloat.
From Knee Require Import Num.
Import ListNotations.

(* exact conversion Z -> float for |z| < 2^62 (correctly rounded by of_uint63 above 2^53) *)
Definition f_ofZ (z : Z) : float :=
  match z with
  | Z0 => PrimFloat.zero
  | Zpos p => PrimFloat.of_uint63 (Uint63.of_Z (Zpos p))
  | Zneg p => PrimFloat.opp (PrimFloat.of_uint63 (Uint63.of_Z (Zpos p)))
  end.

(* value of a finite spec_float as (sign, mantissa, exponent) -> rounding to an integer *)
Definition sf_trunc (x : spec_float) : option Z :=
  match x with
  | S754_zero _ => Some 0%Z
  | S754_finite s m e =>
      let mag := (if (0 <=? e)%Z then Zpos m * 2 ^ e else Zpos m / 2 ^ (- e))%Z in
      Some (if s then (- mag)%Z else mag)
  | _ => None
  end.
Definition sf_is_int (x : spec_float) : bool :=
  match x with
  | S754_zero _ => true
  | S754_finite s m e => if (0 <=? e)%Z then true else (Zpos m mod 2 ^ (- e) =? 0)%Z
  | _ => false
  end.
Definition f_trunc (x : float) : option Z := sf_trunc (Prim2SF x).
Definition f_floor (x : float) : option Z :=
  match sf_trunc (Prim2SF x) with
  | Some t => if sf_is_int (Prim2SF x) then Some t
              else if PrimFloat.ltb x PrimFloat.zero then Some (t - 1)%Z else Some t
  | None => None end.
Definition f_ceil (x : float) : option Z :=
  match sf_trunc (Prim2SF x) with
  | Some t => if sf_is_int (Prim2SF x) then Some t
              else if PrimFloat.ltb PrimFloat.zero x then Some (t + 1)%Z else Some t
  | None => None end.

Definition f_isnan (x : float) : bool := negb (PrimFloat.eqb x x).

(* natural logarithm, accurate to about 1e-15 relative on normal positive doubles:
   x = m * 2^e with m in [sqrt(1/2), sqrt 2); ln m = 2 atanh((m-1)/(m+1)) by its series.
   Only ever compared under tolerance (rmsle). *)
Definition ln2 : float := 0x1.62e42fefa39efp-1%float.
Fixpoint atanh_series (k : nat) (z2 zp : float) (n : float) (acc : float) : float :=
  match k with
  | O => acc
  | S k' => atanh_series k' z2 (zp * z2)%float (n + 2)%float (acc + zp / n)%float
  end.
Definition f_ln (x : float) : float :=
  if f_isnan x then x
  else if PrimFloat.ltb x PrimFloat.zero then PrimFloat.nan
  else if PrimFloat.eqb x PrimFloat.zero then PrimFloat.neg_infinity
  else if PrimFloat.eqb x PrimFloat.infinity then PrimFloat.infinity
  else
    let '(m, e) := PrimFloat.frshiftexp x in           (* x = m * 2^(e - shift), m in [0.5, 1) *)
    let ez := (Uint63.to_Z e - FloatOps.shift)%Z in
    let '(m, ez) := if PrimFloat.ltb m 0x1.6a09e667f3bcdp-1%float then ((m * 2)%float, (ez - 1)%Z) else (m, ez) in
    let z := ((m - 1) / (m + 1))%float in
    let s := atanh_series 30 (z * z)%float z 1%float 0%float in
    (f_ofZ ez * ln2 + 2 * s)%float.

Definition FloatNum : Num := {|
  T := float;
  zero := PrimFloat.zero;
  one := PrimFloat.one;
  add := PrimFloat.add;
  sub := PrimFloat.sub;
  mul := PrimFloat.mul;
  div := PrimFloat.div;
  neg := PrimFloat.opp;
  abs := PrimFloat.abs;
  sqrt := PrimFloat.sqrt;
  ltb := PrimFloat.ltb;
  leb := PrimFloat.leb;
  eqb := PrimFloat.eqb;
  isnan := f_isnan;
  ofZ := f_ofZ;
  truncZ := f_trunc;
  ceilZ := f_ceil;
  floorZ := f_floor;
  ln := f_ln;
|}.

(* tolerance comparison used by the correspondence judges (the only place floats are compared
   inexactly): |a - b| <= rtol * max(|a|,|b|) + atol, NaN ~ NaN, inf ~ same inf *)
Definition f_close (rtol atol a b : float) : bool :=
  if f_isnan a then f_isnan b
  else if f_isnan b then false
  else if PrimFloat.eqb a b then true
  else
    let d := PrimFloat.abs (a - b)%float in
    let m := if PrimFloat.ltb (PrimFloat.abs a) (PrimFloat.abs b) then PrimFloat.abs b else PrimFloat.abs a in
    PrimFloat.leb d (rtol * m + atol)%float.
(* bit-for-bit equality (distinguishes nothing but NaN payloads; +0 = -0 is accepted) *)
Definition f_same (a b : float) : bool :=
  if f_isnan a then f_isnan b else PrimFloat.eqb a b.
Fixpoint list_all2 {A B} (f : A -> B -> bool) (l1 : list A) (l2 : list B) : bool :=
  match l1, l2 with
  | [], [] => true
  | a :: l1', b :: l2' => f a b && list_all2 f l1' l2'
  | _, _ => false
  end.
