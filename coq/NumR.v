(* NumR.v — the real-number instance (Tier A theorems are stated on it).  Not computable. *)
From Coq Require Import Reals ZArith List Bool Lra.
From Knee Require Import Num.
Local Open Scope R_scope.

Definition Rltb (x y : R) : bool := if Rlt_dec x y then true else false.
Definition Rleb (x y : R) : bool := if Rle_dec x y then true else false.
Definition Reqb (x y : R) : bool := if Req_EM_T x y then true else false.
Definition Rfloor (x : R) : Z := (up x - 1)%Z.
Definition Rceil (x : R) : Z := (- Rfloor (- x))%Z.
Definition Rtrunc (x : R) : Z := if Rlt_dec x 0 then Rceil x else Rfloor x.

Definition RNum : Num := {|
  T := R;
  zero := 0;
  one := 1;
  add := Rplus;
  sub := Rminus;
  mul := Rmult;
  div := Rdiv;
  neg := Ropp;
  abs := Rabs;
  sqrt := R_sqrt.sqrt;
  ltb := Rltb;
  leb := Rleb;
  eqb := Reqb;
  isnan := fun _ => false;
  ofZ := IZR;
  truncZ := fun x => Some (Rtrunc x);
  ceilZ := fun x => Some (Rceil x);
  floorZ := fun x => Some (Rfloor x);
  ln := Rpower.ln;
|}.

Lemma Rltb_true x y : Rltb x y = true <-> x < y.
Proof. unfold Rltb; destruct (Rlt_dec x y); split; intros; auto; discriminate. Qed.
Lemma Rltb_false x y : Rltb x y = false <-> y <= x.
Proof. unfold Rltb; destruct (Rlt_dec x y); split; intros; auto; try discriminate; lra. Qed.
Lemma Rleb_true x y : Rleb x y = true <-> x <= y.
Proof. unfold Rleb; destruct (Rle_dec x y); split; intros; auto; discriminate. Qed.
Lemma Rleb_false x y : Rleb x y = false <-> y < x.
Proof. unfold Rleb; destruct (Rle_dec x y); split; intros; auto; try discriminate; lra. Qed.
Lemma Reqb_true x y : Reqb x y = true <-> x = y.
Proof. unfold Reqb; destruct (Req_EM_T x y); split; intros; auto; discriminate. Qed.
Lemma Reqb_false x y : Reqb x y = false <-> x <> y.
Proof. unfold Reqb; destruct (Req_EM_T x y); split; intros; auto; try discriminate; contradiction. Qed.

(* sums on R: the left fold equals the mathematical sum *)
Fixpoint Rsum (l : list R) : R := match l with nil => 0 | cons x l' => x + Rsum l' end.
Lemma fold_left_Rplus l : forall a, fold_left Rplus l a = a + Rsum l.
Proof. induction l as [|x l IH]; intros a; simpl; [lra|rewrite IH; lra]. Qed.
Lemma seq_sum_R (l : list R) : @seq_sum RNum l = Rsum l.
Proof. unfold seq_sum. simpl. rewrite fold_left_Rplus. lra. Qed.
